"""C11 - results depend only on the input, not on what was processed before (DESIGN.md 4, C11)."""
from __future__ import annotations

import copy
import gc
import hashlib
import json
import os
import subprocess
import sys
import time

import hypothesis
from hypothesis import HealthCheck, Phase, settings, strategies as st
from hypothesis.stateful import RuleBasedStateMachine, initialize, invariant, rule, run_state_machine_as_test

from vf import canon, decomp, gen_macro, gen_prog, gen_ssb, results
from vf.core import Failure, Stats, derive_seed, VERIF, REPO, weighted

ID = "C11"
LEVEL = "exploration"
RULE = (
    "Hypothesis RuleBasedStateMachine. Each history draws a pool of 3-6 inputs: generated programs (with and without "
    "macros; different programs reuse the same macro / label / coroutine / op names), programs with one injected "
    "static error (the call raises midway), multi-file macro workspaces (main file and its imported files, each also compiled as a top-level file with ONE compiler object per workspace), routine sets chosen to exercise the decompiler's memo table (nested loops, then switches with empty cases), and SSB routine sets of strata 1-3 (incl. ones that take the SsbScript "
    "fallback). Rules: compile with a fresh compiler; compile the SsbScript text of a routine set with the SsbScript compiler (fresh object, or ONE shared object that is also handed truncated texts which it rejects); compile with ONE shared compiler instance; compile the main files of two or three project directories (same import name, relative lookup path, different library files) with ONE compiler object; decompile fresh "
    "objects; decompile the SAME op objects again; call convert() twice on the same decompiler; SsbScript-decompile the "
    "same op objects after the ExplorerScript decompiler used them; a sweep that decompiles every nested-loop input and then every empty-case-switch input of the pool; gc.collect(). Model: the result of every input "
    "(ops, offsets, routine table, text, serialized source maps, or the exception type and message) computed in a FRESH "
    "interpreter process per input (started with a different string-hash seed than the checking process). Invariant after every step: the in-process result is byte-identical to the model's, "
    "and the caller's op objects still denote the same routine set. Non-trivial = history of >= 3 steps in which an "
    "input is repeated after a different one, or a call follows a raising call; distinct by hash of (pool, steps)."
    ' One pool in five holds a program nested 60-240 blocks deep; the two-projects rule also hands the shared compiler the unsaved buffer of a library whose import fails.'
)
ASSUMPTIONS = [
    "byte-identical means equality of the canonical JSON forms of vf/results.py (ops with jump structure, offsets, routine table, text, SourceMap.serialize())",
    "param.indent of the caller's parameter objects may change (it is a printing aid, not meaning)",
]
CASES = {"quick": 160, "thorough": 3000}
SHARDS = 16
NO_SHRINK = True  # the state machine run shrinks itself

RULES = ["two_projects_shared", "compile_ssbscript_shared", "compile_fresh", "compile_shared", "decompile_fresh", "decompile_same_objects", "convert_twice", "ssbs_same_objects", "compile_ssbscript", "ws_main_fresh", "ws_main_shared", "ws_lib_shared", "memo_sweep", "gc"]

_MODEL_CACHE: dict[str, dict] = {}


def item_key(item) -> str:
    return hashlib.sha1(json.dumps(item, sort_keys=True, default=str).encode()).hexdigest()


def fresh_reference(item) -> dict:
    """Reference result from a fresh interpreter process (cached per content within this worker)."""
    k = item_key(item)
    if k not in _MODEL_CACHE:
        # the fresh interpreter runs with ANOTHER string-hash seed than this process (which runs with 0): a result that
        # depends on the iteration order of a set of strings differs between processes in real life; the seed is a
        # function of the input, so the run stays reproducible
        env = dict(os.environ, PYTHONPATH=str(REPO) + os.pathsep + str(VERIF), PYTHONHASHSEED=str(1 + int(k[:6], 16) % 9), VERIF_REPO=str(REPO))
        p = subprocess.run([sys.executable, "-m", "vf.fresh"], input=json.dumps([item]), capture_output=True, text=True, env=env, cwd=str(VERIF), timeout=600)
        if p.returncode != 0:
            raise RuntimeError("fresh worker failed: " + p.stderr[-500:])
        _MODEL_CACHE[k] = json.loads(p.stdout)[0]
    return _MODEL_CACHE[k]


def pool_items():
    from vf.checks import c10

    prog = st.one_of(gen_prog.programs(max_stmts=20, with_control=True), gen_macro.macro_programs(single_file=True, max_stmts=25, with_control=True))
    p_item = prog.map(lambda p: {"kind": "program", "prog": p})

    def mk_err(t):
        text, files = c10.inject(t[0], t[1], t[2])
        return {"kind": "text", "text": text if text is not None else "def 0 { break; }"}

    snippet_errs = [e for e in c10.ERRS if e in c10.SNIPPET]
    e_item = st.tuples(gen_prog.programs(max_stmts=15), st.sampled_from(snippet_errs), st.integers(0, 1000)).map(mk_err)
    s_item = decomp.input_strategy(w1=1, w2=1, w3=3).map(lambda c: {"kind": "ssb", "case": c})

    def macro_pair(p):
        """a program with macros and the same routines WITHOUT the macro definitions (alone it is rejected:
        unknown macro) - state leaking from one compile() to the next through a reused compiler shows here"""
        from vf import render

        q = {"imports": [], "macros": [], "routines": p["routines"]}
        return [{"kind": "program", "prog": p}, {"kind": "text", "text": render.render(q).text}]

    pair = st.one_of(st.just([]), gen_macro.macro_programs(single_file=True, max_stmts=20).map(macro_pair))
    ws_item = st.one_of(st.just([]), gen_macro.macro_programs(single_file=False, max_stmts=20).filter(lambda c: c.get("files")).map(lambda c: [{"kind": "ws", "case": c}]))
    memo = st.one_of(st.just([]), memo_table_inputs())
    # sizes: one pool in five holds a program nested 60-240 blocks deep (a result that depends on how much stack earlier
    # calls left configured shows only there)
    vdeep = weighted((4, st.just([])), (1, st.fixed_dictionaries({"kind": st.just("program"), "vdeep": st.fixed_dictionaries({
        "shape": st.just("nest"), "n": st.integers(60, 240), "kinds": st.lists(st.sampled_from(["if", "if", "else", "switch", "forever"]), min_size=1, max_size=3)})}).map(lambda x: [x])))
    # routine sets on which convert() gives up inside a graph pass (what the pass leaves behind is history for the next call)
    from vf.checks import c12

    f_item = c12.failing_item().map(lambda it: {"kind": "ssb", "case": it["case"], "failing": True})
    return st.tuples(p_item, s_item, e_item, st.lists(weighted((1, p_item), (2, s_item), (1, e_item), (1, f_item)), min_size=0, max_size=3), pair, ws_item, memo, vdeep).map(lambda t: [t[0], t[1], t[2]] + t[3] + t[4] + t[5] + t[6] + t[7])


@st.composite
def memo_table_inputs(draw):
    """Routine sets that exercise the decompiler's memo table of common-join searches: nested loops (their exits do not
    meet at once, the search stores its results) followed by switches with empty cases and ifs (the search is
    read). Compiled from small programs; several variants so that the edge-index keys vary."""
    n = [0]

    def op():
        n[0] += 1
        return {"k": "op", "name": f"mo_{n[0]}", "args": [], "ctx": None}

    def var():
        n[0] += 1
        return {"t": "const", "v": f"$M_{n[0]}"}

    def cond():
        return {"c": "neg", "not": False, "kw": draw(st.sampled_from(["debug", "edit", "variation"]))}

    items = []
    loop_prefixes = draw(st.lists(st.integers(0, 3), min_size=2, max_size=4, unique=True))
    for npre in loop_prefixes:
        inner = {"k": draw(st.sampled_from(["while", "forever"])), "not": False, "cond": cond(), "body": draw(st.sampled_from([[], [], [op()], [op(), op()]]))}
        if inner["k"] == "forever":
            inner = {"k": "forever", "body": [op(), {"k": "if", "not": False, "conds": [cond()], "body": [{"k": "ctl", "v": "break_loop"}], "elifs": [], "else": None}]}
        outer = {"k": "forever", "body": [op() for _ in range(draw(st.integers(0, 2)))] + [inner]}
        body = [op() for _ in range(npre)] + [outer]
        # several routines of the same shape: several graphs whose entries can go stale
        routines = [{"kind": "def", "id": i, "name": None, "target": None, "alias": False, "body": body} for i in range(draw(st.integers(2, 6)))]
        items.append({"kind": "ssb", "memo": "loop", "case": {"stratum": 1, "prog": {"imports": [], "macros": [], "routines": routines}, "gaps": [0]}})
    for npre in draw(st.lists(st.integers(0, 4), min_size=3, max_size=5, unique=True)):
        ncase = draw(st.integers(1, 3))
        sw = {"k": "switch", "head": draw(st.sampled_from([{"h": "random", "v": {"t": "int", "v": 3}}, {"h": "var", "v": var()}, {"h": "sector"}])),
              "cases": [{"default": False, "head": {"ch": "val", "v": {"t": "int", "v": j}}, "body": [{"k": "ctl", "v": "break"}] if (j == ncase - 1 or draw(st.booleans())) else []} for j in range(ncase)]}
        body = [op() for _ in range(npre)] + [sw] + [op() for _ in range(draw(st.integers(0, 2)))] + [{"k": "ctl", "v": "end"}]
        items.append({"kind": "ssb", "memo": "switch", "case": {"stratum": 1, "prog": {"imports": [], "macros": [], "routines": [{"kind": "def", "id": 0, "name": None, "target": None, "alias": False, "body": body}]}, "gaps": [0]}})
    # ... and a routine set on which convert() gives up inside a pass: whatever that pass had stored stays behind (this is
    # how F-C11-4 was found: the entries of a graph that no longer exists were read for a later graph with the same id)
    from vf.checks import c12

    f = draw(c12.failing_item())
    items.append({"kind": "ssb", "memo": "loop", "failing": True, "case": f["case"]})
    return items


class HistoryRunner:
    def __init__(self, pool):
        self.pool = pool
        self.steps: list[list] = []
        self.shared_compiler = None
        self.shared_ssbs_compiler = None
        self.objects: dict[int, tuple] = {}
        self.ws_compilers: dict[int, object] = {}
        self.decompilers: dict[int, object] = {}
        self.last_raised = False
        self.flags = set()
        self.seen_inputs: list[int] = []

    def _idx(self, i, kinds):
        cands = [k for k, it in enumerate(self.pool) if it["kind"] in kinds]
        return cands[i % len(cands)] if cands else None

    def step(self, rule_name, i):
        self.steps.append([rule_name, i])
        if rule_name == "gc":
            gc.collect()
            return None
        if rule_name == "memo_sweep":
            loops = [k for k, it in enumerate(self.pool) if it.get("memo") == "loop"]
            switches = [k for k, it in enumerate(self.pool) if it.get("memo") == "switch"]
            for kl in loops:
                c = results.input_ssb(self.pool[kl])
                for _ in range(2):
                    results.decompile_result(gen_ssb.build(c))
                gc.collect()
                for ks in switches:
                    ref = fresh_reference(self.pool[ks])
                    got = results.decompile_result(gen_ssb.build(results.input_ssb(self.pool[ks])))
                    self._note(ks, False)
                    f = self._cmp(rule_name, ks, ref["decompile"], got)
                    if f is not None:
                        return f
            return None
        if rule_name == "two_projects_shared":
            return self._two_projects(i)
        if rule_name.startswith("ws_"):
            k = self._idx(i, ("ws",))
            if k is None:
                return None
            item = self.pool[k]
            ref = fresh_reference(item)
            shared = None
            if rule_name != "ws_main_fresh":
                from explorerscript.ssb_converting.ssb_compiler import ExplorerScriptSsbCompiler
                from vf import spec_tables as T

                if k not in self.ws_compilers:
                    ws = results.open_ws(item)
                    self.ws_compilers[k] = ExplorerScriptSsbCompiler(T.PERF_VAR, ws.lookup_paths)
                shared = self.ws_compilers[k]
            if rule_name == "ws_lib_shared":
                n = len(item["case"]["files"])
                if n == 0:
                    return None
                j = (i // 7) % n
                got = results.ws_compile(item, j, compiler=shared)
                self._note(k, "raised" in got)
                return self._cmp(rule_name, k, ref["libs"][j], got)
            got = results.ws_compile(item, "main", compiler=shared)
            self._note(k, "raised" in got)
            return self._cmp(rule_name, k, ref["main"], got)
        if rule_name in ("compile_fresh", "compile_shared"):
            k = self._idx(i, ("program", "text"))
            if k is None:
                return None
            item = self.pool[k]
            ref = fresh_reference(item)
            if rule_name == "compile_shared":
                from explorerscript.ssb_converting.ssb_compiler import ExplorerScriptSsbCompiler
                from vf import spec_tables as T

                if self.shared_compiler is None:
                    self.shared_compiler = ExplorerScriptSsbCompiler(T.PERF_VAR, [])
                got = results.compile_result(results.input_text(item), compiler=self.shared_compiler)
            else:
                got = results.compile_result(results.input_text(item))
            self._note(k, "raised" in got)
            return self._cmp(rule_name, k, ref["compile"], got)
        k = self._idx(i, ("ssb",))
        if k is None:
            return None
        item = self.pool[k]
        ref = fresh_reference(item)
        if ref.get("skip"):
            return None
        c = results.input_ssb(item)
        if rule_name == "compile_ssbscript_shared":
            # ONE SsbScript compiler object per history; odd draws hand it a damaged text first (the call raises)
            if "ssbs_compile" not in ref:
                return None
            from explorerscript.ssb_script.ssb_converting.ssb_compiler import SsbScriptSsbCompiler

            if self.shared_ssbs_compiler is None:
                self.shared_ssbs_compiler = SsbScriptSsbCompiler()
            text = ref["ssbs"]["text"]
            if i % 2:
                cut = text[: (len(text) * (1 + i % 5)) // 7]
                want = results.ssbs_compile_result(cut)
                got = results.ssbs_compile_result(cut, compiler=self.shared_ssbs_compiler)
                self._note(k, "raised" in got)
                # (the wording of ANTLR's syntax error for the same text depends on its prediction caches; the
                # property speaks of ops, text and source maps - only the outcome is compared here)
                want, got = ({kk: v for kk, v in d.items() if kk != "message"} for d in (want, got))
                if want != got:
                    return self._cmp(rule_name + ":damaged_text", k, want, got)
            got = results.ssbs_compile_result(text, compiler=self.shared_ssbs_compiler)
            self._note(k, "raised" in got)
            return self._cmp(rule_name, k, ref["ssbs_compile"], got)
        if rule_name == "compile_ssbscript":
            if "ssbs_compile" not in ref:
                return None
            got = results.ssbs_compile_result(ref["ssbs"]["text"])
            self._note(k, "raised" in got)
            return self._cmp(rule_name, k, ref["ssbs_compile"], got)
        if rule_name == "decompile_fresh":
            got = results.decompile_result(gen_ssb.build(c))
            self._note(k, "raised" in got)
            return self._cmp(rule_name, k, ref["decompile"], got)
        if k not in self.objects:
            self.objects[k] = gen_ssb.build(c)
        built = self.objects[k]
        if rule_name == "decompile_same_objects":
            got = results.decompile_result(built)
            r = self._cmp(rule_name, k, ref["decompile"], got)
        elif rule_name == "convert_twice":
            from explorerscript.ssb_converting.ssb_decompiler import ExplorerScriptSsbDecompiler
            from vf import spec_tables as T
            from vf.cut import dungeon_mode_constants, StepBudget, BudgetExceeded

            d = self.decompilers.get(k)
            if d is None:
                d = ExplorerScriptSsbDecompiler(built[0], built[1], built[2], T.PERF_VAR, dungeon_mode_constants())
                self.decompilers[k] = d
            try:
                with StepBudget(results.BUDGET):
                    text, sm = d.convert()
                got = {"text": text, "source_map": sm.serialize()}
            except BudgetExceeded:
                got = {"raised": "BUDGET"}
            except Exception as e:  # noqa
                got = results.describe_exc(e)
            r = self._cmp(rule_name, k, ref["decompile"], got)
        else:
            got = results.ssbs_result(built)
            r = self._cmp(rule_name, k, ref["ssbs"], got)
        self._note(k, "raised" in got)
        # the caller's objects still denote the same routine set
        now = json.loads(json.dumps(canon.canon_ops(built[1]), default=str))
        if r is None and now != ref["canon"]:
            return Failure(f"input_objects_changed:{rule_name}", f"after {rule_name} the caller's ops differ: {canon.first_diff(ref['canon'], now, 'ops')}\nsteps={self.steps}")
        return r

    def _two_projects(self, i):
        """ONE compiler object (with RELATIVE lookup paths, which are resolved against the importing file) compiles the
        main files of two project directories that both import "common.exps" through the lookup path, each project with
        its own lib/common.exps; every result must equal that of a new compiler object."""
        import shutil

        from explorerscript.ssb_converting.ssb_compiler import ExplorerScriptSsbCompiler
        from vf import spec_tables as T

        base = f"{results.WS_ROOT}/two-{os.getpid()}-{i}"
        try:
            mains = []
            for k, proj in enumerate(["one", "two", "three"][: 2 + i % 2]):
                d = os.path.join(base, proj)
                os.makedirs(os.path.join(d, "lib"), exist_ok=True)
                with open(os.path.join(d, "lib", "common.exps"), "w") as fh:
                    fh.write(f"macro hello($a) {{ From_{proj}_{i}($a); " + ("Extra(); " * k) + "}\n")
                main = os.path.join(d, "main.exps")
                text = 'import "common.exps";\n' + f"def 0 {{ ~hello({k + i}); end; }}\n"
                with open(main, "w") as fh:
                    fh.write(text)
                mains.append((main, text))
            shared = ExplorerScriptSsbCompiler(T.PERF_VAR, ["lib"])
            order = [0, 1, 0] + ([2, 1] if len(mains) > 2 else [])
            for n_, j in enumerate(order):
                main, text = mains[j]
                if (i + n_) % 2 == 0:
                    # an editor compiles the UNSAVED buffer of the project's library (text as a string, file name the
                    # path on disk); the buffer imports a file that does not exist yet, or the main file (a cycle):
                    # the call fails inside the import phase - and must leave nothing behind in the compiler object
                    lib = os.path.join(os.path.dirname(main), "lib", "common.exps")
                    buf = ('import "./not_there_yet.exps";\n' if (i + n_) % 4 == 0 else 'import "../main.exps";\n') + "macro hello($a) { Draft($a); }\n"
                    want_b = results.compile_result(buf, lib, compiler=ExplorerScriptSsbCompiler(T.PERF_VAR, ["lib"]))
                    got_b = results.compile_result(buf, lib, compiler=shared)
                    self._note(0, "raised" in got_b)
                    if want_b.get("raised") != got_b.get("raised"):
                        return Failure("history_dependent:two_projects_shared:unsaved_buffer", f"project {j}: unsaved library buffer: new compiler {want_b}, shared one {got_b}\nsteps={self.steps}")
                want = results.compile_result(text, main, compiler=ExplorerScriptSsbCompiler(T.PERF_VAR, ["lib"]))
                got = results.compile_result(text, main, compiler=shared)
                self._note(0, "raised" in got)
                if want != got:
                    d = canon.first_diff(want, got, "result")
                    return Failure("history_dependent:two_projects_shared:" + ("exception" if ("raised" in want) != ("raised" in got) else "ops"),
                                   f"project {j}: a new compiler object and the shared one disagree: {d[:600]}\nsteps={self.steps}")
            return None
        finally:
            shutil.rmtree(base, ignore_errors=True)

    def _note(self, k, raised):
        if self.seen_inputs and k in self.seen_inputs[:-1] and self.seen_inputs[-1] != k:
            self.flags.add("repeat_after_other")
        if self.last_raised:
            self.flags.add("call_after_raise")
        self.last_raised = raised
        self.seen_inputs.append(k)

    def _cmp(self, rule_name, k, ref, got):
        if ref == got:
            return None
        what = "exception" if ("raised" in ref) != ("raised" in got) else next((key for key in ref if ref.get(key) != got.get(key)), "?")
        d = canon.first_diff(ref, got, "result")
        return Failure(f"history_dependent:{rule_name}:{what}", f"input #{k} ({self.pool[k]['kind']}): fresh-process result differs from the result after this history: {d[:700]}\nsteps={self.steps}")


LAST = {"case": None, "failure": None}


def run_history(pool, steps, stt=None):
    h = HistoryRunner(pool)
    for rule_name, i in steps:
        f = h.step(rule_name, i)
        if f is not None:
            return [f], h
    return [], h


def evaluate(case, stt):
    """Replay of a recorded history (no hypothesis)."""
    fails, h = run_history(case["pool"], case["steps"])
    if len(case["steps"]) >= 3 and h.flags:
        stt.mark_nontrivial(case)
    return fails


def run_shard(tier, seed, shard, n_cases, known_b):
    stt = Stats()
    fails: dict[str, dict] = {}
    herrs: list[str] = []
    t0 = time.time()

    class History(RuleBasedStateMachine):
        def __init__(self):
            super().__init__()
            self.h = None

        @initialize(pool=pool_items())
        def init(self, pool):
            self.h = HistoryRunner(pool)

        def _do(self, name, i):
            f = self.h.step(name, i)
            if f is not None:
                LAST["case"] = {"pool": self.h.pool, "steps": list(self.h.steps)}
                LAST["failure"] = f
                raise AssertionError(f.bucket)

        @rule(i=st.integers(0, 20))
        def compile_fresh(self, i):
            self._do("compile_fresh", i)

        @rule(i=st.integers(0, 20))
        def compile_shared(self, i):
            self._do("compile_shared", i)

        @rule(i=st.integers(0, 20))
        def decompile_fresh(self, i):
            self._do("decompile_fresh", i)

        @rule(i=st.integers(0, 20))
        def decompile_same_objects(self, i):
            self._do("decompile_same_objects", i)

        @rule(i=st.integers(0, 20))
        def convert_twice(self, i):
            self._do("convert_twice", i)

        @rule(i=st.integers(0, 20))
        def ssbs_same_objects(self, i):
            self._do("ssbs_same_objects", i)

        @rule(i=st.integers(0, 40))
        def ws_main_fresh(self, i):
            self._do("ws_main_fresh", i)

        @rule(i=st.integers(0, 40))
        def ws_main_shared(self, i):
            self._do("ws_main_shared", i)

        @rule(i=st.integers(0, 40))
        def ws_lib_shared(self, i):
            self._do("ws_lib_shared", i)

        @rule(i=st.integers(0, 20))
        def compile_ssbscript(self, i):
            self._do("compile_ssbscript", i)

        @rule(i=st.integers(0, 20))
        def compile_ssbscript_shared(self, i):
            self._do("compile_ssbscript_shared", i)

        @rule(i=st.integers(0, 40))
        def two_projects_shared(self, i):
            self._do("two_projects_shared", i)

        @rule()
        def memo_sweep(self):
            self._do("memo_sweep", 0)

        @rule()
        def collect_garbage(self):
            self._do("gc", 0)

        def teardown(self):
            if self.h is not None:
                stt.evaluations += 1
                case = {"pool": self.h.pool, "steps": self.h.steps}
                stt.distinct.add(item_key(case))
                for r, _ in self.h.steps:
                    stt.count("rule:" + r)
                for fl in self.h.flags:
                    stt.count(fl)
                if len(self.h.steps) >= 3 and self.h.flags:
                    stt.mark_nontrivial(case)
                stt.add("steps", len(self.h.steps))
                if len(stt.samples) < 1 and len(self.h.steps) >= 8:
                    stt.sample({"pool_kinds": [it["kind"] for it in self.h.pool], "steps": self.h.steps[:30]})

    sett = settings(max_examples=n_cases, stateful_step_count=25 if tier == "quick" else 50, deadline=None, database=None,
                    suppress_health_check=list(HealthCheck), report_multiple_bugs=False, phases=[Phase.generate], print_blob=False)
    try:
        run_state_machine_as_test(hypothesis.seed(derive_seed(seed, ID, shard))(History), settings=sett)
    except AssertionError:
        f = LAST["failure"]
        if f is not None:
            if f.bucket in known_b:
                stt.excluded_known += 1
            else:
                fails[f.bucket] = {"count": 1, "case": LAST["case"], "message": f.message, "shard": shard}
    except Exception:  # noqa
        import traceback

        herrs.append(traceback.format_exc())
    return {"stats": stt, "fails": fails, "herrs": herrs, "wall": time.time() - t0, "shard": shard}


def shrink_candidates(case):
    steps = case["steps"]
    for i in range(len(steps)):
        yield {"pool": case["pool"], "steps": steps[:i] + steps[i + 1:]}
    for k in range(len(case["pool"])):
        if len(case["pool"]) > 1 and not any(True for _ in []):
            pool = case["pool"][:k] + case["pool"][k + 1:]
            yield {"pool": pool, "steps": steps}


def extra(ctx):
    """scratch workspaces of this run (shared with the fresh-interpreter workers) are removed at the end"""
    import shutil

    shutil.rmtree(results.WS_ROOT, ignore_errors=True)
