"""C14 - source maps survive storage and offset rewriting (DESIGN.md section 4, C14)."""
from __future__ import annotations

import copy
import json

from hypothesis import strategies as st

from vf.core import Failure, call_guard

ID = "C14"
LEVEL = "exploration"
RULE = (
    "case = arbitrary well-typed SourceMap (4 tables; disjoint direct/macro offsets; return addresses >= 1 or null; "
    "call site present or null; names/paths incl. non-ASCII) + injective old->new offset mapping that may drop ops and "
    "need not be monotone, given as a dict filled in a drawn key order; a second stratum takes maps produced by the compiler/decompilers for generated programs. "
    "Non-trivial = map has >= 1 macro entry with a return address AND the mapping drops >= 1 op; distinct by content hash."
    ' One case in five is stretched (all old offsets x37 or x1000). rewrite_offsets runs with the recursion limit the package configures.'
)
ASSUMPTIONS = [
    "return addresses are >= 1 (the compiler computes counter + n + 1); 0 is not generated",
    "an offset is never present in both the direct and the macro table (an op is either direct or from a macro)",
    "JSON turns the call-site tuple into a list: tuple vs list is tolerated in the field comparison",
    "if the op at a return address was dropped and no later op survives, the resulting return address is unspecified",
]
CASES = {"quick": 6400, "thorough": 120000}

_text = st.text(alphabet=st.characters(codec="utf-8", exclude_categories=("Cs",)), max_size=8)
_name = st.one_of(st.sampled_from(["m", "macro_a", "é", "日本", "a/b.exps", "../x.exps"]), _text)
_file = st.one_of(st.none(), _name)
_small = st.integers(0, 400)


def _pos_mark():
    return st.tuples(_small, _small, _small, _small, _name, st.sampled_from([0, 2, 4]), st.sampled_from([0, 2, 4]), st.integers(-50, 300), st.integers(-50, 300)).map(list)


@st.composite
def smap_case(draw):
    n = draw(st.integers(0, 14))
    offsets = draw(st.lists(st.integers(0, 60), min_size=n, max_size=n, unique=True))
    direct, macro = [], []
    for o in offsets:
        if draw(st.booleans()):
            direct.append([o, draw(_small), draw(_small)])
        else:
            called = draw(st.one_of(st.none(), st.tuples(_file, _small, _small).map(list)))
            ret = draw(st.one_of(st.none(), st.integers(1, 70)))
            params = draw(st.dictionaries(_name, st.one_of(st.integers(-1000, 1000), _text), max_size=3))
            if macro and draw(st.integers(0, 3)) == 0:
                # the same parameter names and values as an earlier entry (ops of one expansion share them; two
                # macros may take the same names in another order): same items, drawn key order
                prev = macro[draw(st.integers(0, len(macro) - 1))][7]
                params = dict(draw(st.permutations(list(prev.items())))) if prev else params
            macro.append([o, draw(_file), draw(_name), draw(_small), draw(_small), called, ret, params])
    pos = draw(st.lists(_pos_mark(), max_size=3))
    mpos = draw(st.lists(st.tuples(_file, _name, _pos_mark()).map(list), max_size=3))
    # mapping: subset of a universe that contains the entry offsets and their neighbourhood
    universe = sorted(set(offsets) | set(draw(st.lists(st.integers(0, 75), max_size=12))))
    keep = [o for o in universe if draw(st.integers(0, 9)) < 7]
    news = draw(st.lists(st.integers(0, 200), min_size=len(keep), max_size=len(keep), unique=True))
    if draw(st.booleans()):
        news = sorted(news)
    if draw(st.integers(0, 11)) == 0:
        keep, news = [], []  # the empty mapping: every op was dropped
    # sizes: offsets are counted in 16-bit words and real scripts have tens of thousands of them - one case in five is
    # the same map stretched (every old offset, return address and mapping key times 37 or times 1000), so that dropped
    # runs are long
    scale = draw(st.sampled_from([1, 1, 1, 1, 1, 1, 1, 1, 37, 1000]))
    if scale > 1:
        for e in direct:
            e[0] *= scale
        for e in macro:
            e[0] *= scale
            if e[6] is not None:
                e[6] *= scale
        keep = [o * scale for o in keep]
    pairs = [[o, n_] for o, n_ in zip(keep, news)]
    # the mapping is a dict: the order in which the caller filled it is part of the input (drawn)
    if pairs and draw(st.booleans()):
        pairs = list(draw(st.permutations(pairs)))
    return {"map": direct, "mmap": macro, "pos": pos, "mpos": mpos, "remap": pairs}


@st.composite
def compiled_case(draw):
    """source map produced by the compiler for a generated program with macros; the offset mapping is drawn"""
    from vf import gen_macro, gen_prog

    prog = draw(st.one_of(gen_macro.macro_programs(single_file=True, max_stmts=25), gen_prog.programs(max_stmts=20)))
    return {"prog": prog, "keep": draw(st.lists(st.integers(0, 9), min_size=1, max_size=20)),
            "news": draw(st.lists(st.integers(0, 400), min_size=1, max_size=30)), "sorted": draw(st.booleans()),
            "fill_order": draw(st.one_of(st.just([]), st.lists(st.integers(0, 1000), min_size=2, max_size=12)))}


def strategy(tier):
    from vf.core import weighted

    return weighted((2, smap_case()), (1, compiled_case()))


def compiled_to_case(case, stt):
    """compile the program and turn its source map + drawn numbers into the plain case form"""
    from vf import render
    from vf.cut import compile_text
    from vf.core import call_guard

    comp, exc = call_guard(lambda: compile_text(render.render(case["prog"]).text))
    if exc is not None:
        return None
    sm = comp.source_map
    direct, macros, pm, pmm = fields(sm)
    universe = sorted(set(direct) | set(macros) | {v[5] for v in macros.values() if v[5] is not None})
    keep = [o for i, o in enumerate(universe) if case["keep"][i % len(case["keep"])] < 7]
    news, used = [], set()
    for i, o in enumerate(keep):
        n = case["news"][i % len(case["news"])]
        while n in used:
            n += 1
        used.add(n)
        news.append(n)
    if case["sorted"]:
        news = sorted(news)
    pairs = [[o, n] for o, n in zip(keep, news)]
    fo = case.get("fill_order") or []
    if fo:
        pairs = [p for _, p in sorted(enumerate(pairs), key=lambda t: (fo[t[0] % len(fo)], t[0]))]
    return {
        "map": [[o, v[0], v[1]] for o, v in direct.items()],
        "mmap": [[o, v[0], v[1], v[2], v[3], list(v[4]) if v[4] is not None else None, v[5], v[6]] for o, v in macros.items()],
        "pos": [list(x) for x in pm],
        "mpos": [[f, n, list(x)] for f, n, x in pmm],
        "remap": pairs,
    }


def build(case):
    from explorerscript.source_map import MacroSourceMapping, SourceMap, SourceMapping, SourceMapPositionMark

    mappings = {o: SourceMapping(l, c) for o, l, c in case["map"]}
    mm = {}
    for o, f, name, l, c, called, ret, params in case["mmap"]:
        mm[o] = MacroSourceMapping(f, name, l, c, tuple(called) if called is not None else None, ret, dict(params))
    pos = [SourceMapPositionMark(*p) for p in case["pos"]]
    mpos = [(f, n, SourceMapPositionMark(*p)) for f, n, p in case["mpos"]]
    return SourceMap(mappings, pos, mm, mpos)


def fields(sm):
    """Field-by-field view of a SourceMap through its public accessors."""
    direct, macros = {}, {}
    macro_keys = {k for k, _ in sm.collect_mappings__macros()}
    for off, m in sm:
        if off in macro_keys and hasattr(m, "macro_name"):
            continue
        direct[off] = (m.line, m.column)
    for off, m in sm.collect_mappings__macros():
        ci = m.called_in
        macros[off] = (
            m.relpath_included_file,
            m.macro_name,
            m.line,
            m.column,
            tuple(ci) if ci is not None else None,
            m.return_addr,
            dict(m.parameter_mapping),
        )
    pm = [tuple(p.serialize()) for p in sm.get_position_marks__direct()]
    pmm = [(f, n, tuple(p.serialize())) for f, n, p in sm.get_position_marks__macros()]
    return direct, macros, pm, pmm


def ref_rewrite(view, remap):
    direct, macros, pm, pmm = view
    nd = {remap[o]: v for o, v in direct.items() if o in remap}
    nm = {}
    unspecified = set()
    for o, v in macros.items():
        if o not in remap:
            continue
        ret = v[5]
        if ret is not None:
            if ret in remap:
                ret = remap[ret]
            else:
                later = [k for k in remap if k > ret]
                if later:
                    ret = remap[min(later)]
                else:
                    unspecified.add(remap[o])
        nm[remap[o]] = v[:5] + (ret,) + v[6:]
    return nd, nm, pm, pmm, unspecified


def evaluate(case, stt):
    from explorerscript.source_map import SourceMap

    fails = []
    if "prog" in case:
        stt.count("stratum:compiler_produced_map")
        case = compiled_to_case(case, stt)
        if case is None:
            stt.count("rejected_by_compiler")
            return fails
    else:
        stt.count("stratum:arbitrary_well_typed_map")
    remap = {o: n for o, n in case["remap"]}
    dropped = [o for o, *_ in case["map"] + case["mmap"] if o not in remap]
    has_ret = any(e[6] is not None for e in case["mmap"])
    stt.count("has_macro_entries" if case["mmap"] else "no_macro_entries")
    if dropped:
        stt.count("drops_op")
    by_key = sorted(case["remap"])
    if [n for _, n in by_key] != sorted(n for _, n in by_key):
        stt.count("non_monotone")
    if case["remap"] != by_key:
        stt.count("mapping_filled_in_non_ascending_key_order")
    if any(e[6] is not None and e[6] not in remap for e in case["mmap"]):
        stt.count("return_addr_dropped")
    if has_ret and dropped:
        stt.mark_nontrivial(case)

    sm = build(case)
    before = fields(sm)

    # ---- storage round trip
    res, exc = call_guard(lambda: SourceMap.deserialize(sm.serialize()))
    if exc is not None:
        fails.append(Failure("roundtrip:" + exc[0], exc[1]))
    else:
        sm2 = res
        if not (sm2 == sm):
            fails.append(Failure("roundtrip:not_equal", "deserialize(serialize(m)) != m"))
        after = fields(sm2)
        for i, nm in enumerate(["op entries", "macro entries", "position marks", "macro position marks"]):
            if after[i] != before[i]:
                fails.append(Failure(f"roundtrip:fields:{nm}", f"{nm} differ: {before[i]!r} vs {after[i]!r}"[:400]))
        t1, t2 = sm.serialize(), sm2.serialize()
        if t1 != t2:
            fails.append(Failure("roundtrip:reserialize", "serialize(deserialize(serialize(m))) != serialize(m)"))
        try:
            json.loads(t1)
        except Exception as e:  # noqa
            fails.append(Failure("roundtrip:not_json", str(e)))
        # the deserialized map must behave identically under rewriting too
        _rewrite_check(sm2, before, remap, fails, "deserialized")

    # ---- rewriting
    _rewrite_check(build(case), before, remap, fails, "built")
    if len(stt.samples) < 2 and has_ret and dropped and not fails:
        stt.sample({"source_map": json.loads(sm.serialize()), "remap": case["remap"]})
    return fails


def _rewrite_check(sm, before, remap, fails, tag):
    exp = ref_rewrite(before, remap)
    # the object has been stored once before it is rewritten (what a caller with a saved map does)
    _, exc0 = call_guard(sm.serialize)
    if exc0 is not None:
        fails.append(Failure("store:" + exc0[0], f"[{tag}] serialize() raised {exc0[1]}"[:600]))
        return
    def _rw():
        from vf.cut import cut_stack

        with cut_stack():
            sm.rewrite_offsets(dict(remap))

    _, exc = call_guard(_rw)
    if exc is not None:
        fails.append(Failure("rewrite:" + exc[0], exc[1]))
        return
    got = fields(sm)
    # what is stored after the rewrite is the rewritten map
    from explorerscript.source_map import SourceMap

    again, exc = call_guard(lambda: fields(SourceMap.deserialize(sm.serialize())))
    if exc is not None:
        fails.append(Failure("rewrite:store_after_rewrite:" + exc[0], exc[1]))
    elif again != got:
        fails.append(Failure("rewrite:store_after_rewrite", f"[{tag}] serialize() after rewrite_offsets() does not describe the rewritten map: {again!r} vs {got!r}"[:600]))
    if got[0] != exp[0]:
        fails.append(Failure("rewrite:op_entries", f"[{tag}] expected {exp[0]!r} got {got[0]!r}"[:500]))
    gm = dict(got[1])
    em = dict(exp[1])
    if set(gm) != set(em):
        fails.append(Failure("rewrite:macro_keys", f"[{tag}] expected keys {sorted(em)} got {sorted(gm)}"))
    else:
        for k in em:
            g, e = gm[k], em[k]
            if k in exp[4]:
                g, e = g[:5] + g[6:], e[:5] + e[6:]
            if g != e:
                b = "rewrite:return_addr" if g[:5] == e[:5] and g[6:] == e[6:] else "rewrite:macro_entry"
                fails.append(Failure(b, f"[{tag}] offset {k}: expected {e!r} got {g!r}"[:500]))
                break
    if got[2] != exp[2] or got[3] != exp[3]:
        fails.append(Failure("rewrite:pos_marks", f"[{tag}] position marks changed by rewrite_offsets"))
