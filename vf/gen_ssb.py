"""SSB routine-set generator (DESIGN.md 3.6).

A case is plain data:
  {"routines": [{"type": "GENERIC"|"ACTOR"|"OBJECT"|"PERFORMER"|"COROUTINE", "target": int|None,
                 "target_name": str|None, "name": str|None,
                 "ops": [[opcode, [param...], [routine index, op index] | None], ...]}, ...],
   "gaps": [int...]}           # offset gaps, consumed cyclically
params: int | {"c": name} | {"s": text} | {"l": [[lang, text]...]} | {"p": [name, xoff, yoff, x, y]} | {"d": "1.5"}
"""
from __future__ import annotations

import copy

from hypothesis import strategies as st

from vf import spec_tables as T

SAFE = "abcdefghijklmnopqrstuvwxyzABCDEFGHIJKLMNOPQRSTUVWXYZ0123456789 .,!?-_:;()[]#+*/=<>%&@~^|{}$"


# --------------------------------------------------------------------------------------
# building real objects
# --------------------------------------------------------------------------------------
def build_param(p):
    from explorerscript.ssb_converting import ssb_data_types as D

    if isinstance(p, int):
        return p
    if "c" in p:
        return D.SsbOpParamConstant(p["c"])
    if "s" in p:
        return D.SsbOpParamConstString(p["s"])
    if "l" in p:
        return D.SsbOpParamLanguageString({a: b for a, b in p["l"]})
    if "p" in p:
        n, xo, yo, x, y = p["p"]
        return D.SsbOpParamPositionMarker(n, xo, yo, x, y)
    if "d" in p:
        return D.SsbOpParamFixedPoint.from_str(p["d"])
    raise ValueError(p)


def offsets_of(case):
    gaps = case.get("gaps") or [0]
    off = case.get("first_offset", 0)
    k = 0
    out = []
    for r in case["routines"]:
        row = []
        for _ in r["ops"]:
            row.append(off)
            off += 1 + gaps[k % len(gaps)]
            k += 1
        out.append(row)
    return out


def build(case):
    """-> (routine_infos, routine_ops, named_coroutines) as the decompilers take them."""
    from explorerscript.ssb_converting import ssb_data_types as D

    offs = offsets_of(case)
    infos, rops, coros = [], [], []
    # callers like SkyTemple hand over their own op objects (a subclass of SsbOperation) with one opcode object shared
    # by all ops of that opcode; half of the cases are built that way
    op_cls = D.SsbOperation
    opcodes: dict = {}
    if case.get("caller_style", case.get("name_table")):
        op_cls = _caller_op_class()
    for r_i, r in enumerate(case["routines"]):
        t = D.SsbRoutineType[r["type"]]
        if r["type"] == "COROUTINE":
            infos.append(D.SsbRoutineInfo(t, 0))
            coros.append(D.SsbCoroutine(r_i, r["name"]))
        elif r["type"] == "GENERIC":
            infos.append(D.SsbRoutineInfo(t, 0))
        else:
            if r.get("target_name"):
                infos.append(D.SsbRoutineInfo(t, -1, r["target_name"]))
            else:
                infos.append(D.SsbRoutineInfo(t, r["target"]))
        ops = []
        for i, (name, params, tgt) in enumerate(r["ops"]):
            ps = [build_param(p) for p in params]
            if tgt is not None:
                ps.append(offs[tgt[0]][tgt[1]])
            if op_cls is D.SsbOperation:
                ops.append(D.SsbOperation(offs[r_i][i], D.SsbOpCode(-1, name), ps))
            else:
                oc = opcodes.setdefault(name, D.SsbOpCode(-1, name))
                ops.append(op_cls(offs[r_i][i], oc, ps))
        rops.append(ops)
    if case.get("name_table"):
        # callers hand the decompilers the game's whole table of common-routine names (id -> name), not only the
        # names of the coroutines of this file: the table also has entries under the ids of ordinary routines
        have = {c.id for c in coros}
        coros += [D.SsbCoroutine(r_i, f"COMMON_{r_i}") for r_i in range(len(case["routines"]) + 2) if r_i not in have]
    return infos, rops, coros


_CALLER_OP = []


def _caller_op_class():
    if not _CALLER_OP:
        from explorerscript.ssb_converting import ssb_data_types as D

        class CallerSsbOperation(D.SsbOperation):
            """an application's own operation class (carries something of its own)"""

            def __init__(self, offset, op_code, params):
                super().__init__(offset, op_code, params)
                self.app_data = None

        _CALLER_OP.append(CallerSsbOperation)
    return _CALLER_OP[0]


def routine_table(case):
    out = []
    for r in case["routines"]:
        if r["type"] == "COROUTINE":
            out.append({"type": "COROUTINE", "target": None, "name": r["name"]})
        elif r["type"] == "GENERIC":
            out.append({"type": "GENERIC", "target": None, "name": None})
        else:
            tg = ("n", r["target_name"]) if r.get("target_name") else ("i", r["target"])
            out.append({"type": r["type"], "target": tg, "name": None})
    return out


def param_to_case(p):
    """real parameter object -> case form"""
    from explorerscript.ssb_converting import ssb_data_types as D

    if isinstance(p, bool):
        return int(p)
    if isinstance(p, int):
        return p
    if isinstance(p, D.SsbOpParamConstant):
        return {"c": p.name}
    if isinstance(p, D.SsbOpParamConstString):
        return {"s": p.name}
    if isinstance(p, D.SsbOpParamLanguageString):
        return {"l": [[a, b] for a, b in p.strings.items()]}
    if isinstance(p, D.SsbOpParamPositionMarker):
        return {"p": [p.name, p.x_offset, p.y_offset, p.x_relative, p.y_relative]}
    if isinstance(p, D.SsbOpParamFixedPoint):
        return {"d": str(p.value)}
    raise ValueError(repr(p))


def case_from_compiled(comp, gaps=None):
    """Compilation result -> case (jump targets become indices)."""
    where = {}
    for r_i, r in enumerate(comp.routine_ops):
        for i, op in enumerate(r):
            where[op.offset] = [r_i, i]
    routines = []
    for r_i, (info, ops) in enumerate(zip(comp.routine_infos, comp.routine_ops)):
        if info is None:
            return None
        r = {"type": info.type.name, "target": None, "target_name": None, "name": None, "ops": []}
        if info.type.name == "COROUTINE":
            r["name"] = comp.named_coroutines[r_i]
        elif info.type.name != "GENERIC":
            if info.linked_to_name:
                r["target_name"] = info.linked_to_name
            else:
                r["target"] = info.linked_to
        for op in ops:
            params = list(op.params)
            tgt = None
            if op.op_code.name in T.JUMP_OPS and params and isinstance(params[-1], int):
                tgt = where.get(params[-1])
                if tgt is None:
                    return None
                params = params[:-1]
            r["ops"].append([op.op_code.name, [param_to_case(p) for p in params], tgt])
        routines.append(r)
    return {"routines": routines, "gaps": gaps or [0]}


# --------------------------------------------------------------------------------------
# behaviour-preserving layout changes (stratum 2)
# --------------------------------------------------------------------------------------
def _retarget(case, fn):
    for r in case["routines"]:
        for op in r["ops"]:
            if op[2] is not None:
                op[2] = fn(op[2])


def insert_op(case, r_i, at, op):
    """Insert op at position `at` of routine r_i; targets at or after it move down by one."""
    def fn(t):
        if t[0] == r_i and t[1] >= at:
            return [t[0], t[1] + 1]
        return t

    _retarget(case, fn)
    if op[2] is not None:
        op[2] = fn(op[2])
    case["routines"][r_i]["ops"].insert(at, op)


def is_flow_end(op):
    return op[0] in T.STOP_OPS or op[0] == "Jump"


def relayout(case, tape):
    """Applies up to len(tape)//2 behaviour-preserving transformations; returns (case, list of names)."""
    case = copy.deepcopy(case)
    applied = []
    it = iter(tape)

    def nxt(n):
        try:
            return next(it) % max(1, n)
        except StopIteration:
            return 0

    for _ in range(min(3, max(1, len(tape) // 3))):
        kind = nxt(5)
        routines = [i for i, r in enumerate(case["routines"]) if r["ops"]]
        if not routines:
            break
        r_i = routines[nxt(len(routines))]
        ops = case["routines"][r_i]["ops"]
        if kind == 0:
            # unreachable ops after a flow-ending op
            ends = [i for i, op in enumerate(ops) if is_flow_end(op) and (i == 0 or ops[i - 1][0] not in T.OPS_CTX)]
            if ends:
                at = ends[nxt(len(ends))] + 1
                insert_op(case, r_i, at, ["dead_op", [nxt(100)], None])
                if nxt(2):
                    insert_op(case, r_i, at + 1, ["Return", [], None])
                else:
                    # the unreachable code must itself end the flow only if it is last
                    if at + 1 >= len(case["routines"][r_i]["ops"]):
                        insert_op(case, r_i, at + 1, ["End", [], None])
                    else:
                        insert_op(case, r_i, at + 1, ["Jump", [], None])
                        case["routines"][r_i]["ops"][at + 1][2] = [r_i, at + 2]
                applied.append("unreachable_ops")
        elif kind == 1:
            # leading Jump: routine starts with a Jump to its old first op, placed behind a dead block
            insert_op(case, r_i, 0, ["Jump", [], [r_i, 0]])
            # the inserted jump now targets itself+1 (old first op) after retargeting
            case["routines"][r_i]["ops"][0][2] = [r_i, 1]
            applied.append("leading_jump")
        elif kind == 2:
            # Jump threading: insert a Jump -> next op in the middle of straight-line code
            cands = [i for i in range(1, len(ops)) if ops[i - 1][0] not in T.OPS_CTX and not is_flow_end(ops[i - 1])]
            if cands:
                at = cands[nxt(len(cands))]
                insert_op(case, r_i, at, ["Jump", [], [r_i, at]])
                case["routines"][r_i]["ops"][at][2] = [r_i, at + 1]
                applied.append("threaded_jump")
        elif kind == 3:
            # move the tail of the routine behind an inserted Jump: ... Jump->T ; [dead] ; T: tail
            cands = [i for i in range(1, len(ops)) if ops[i - 1][0] not in T.OPS_CTX and not is_flow_end(ops[i - 1])]
            if cands:
                at = cands[nxt(len(cands))]
                insert_op(case, r_i, at, ["Jump", [], [r_i, at]])
                case["routines"][r_i]["ops"][at][2] = [r_i, at + 1]
                insert_op(case, r_i, at + 1, ["dead_op", [nxt(100)], None])
                insert_op(case, r_i, at + 2, ["End", [], None])
                case["routines"][r_i]["ops"][at][2] = [r_i, at + 3]
                applied.append("moved_block")
        else:
            # duplicate the final flow-ending op and let one predecessor jump use the copy (shared tail split)
            last = len(ops) - 1
            if last >= 0 and ops[last][0] in T.STOP_OPS and (last == 0 or ops[last - 1][0] not in T.OPS_CTX):
                users = [(ri, oi) for ri, r in enumerate(case["routines"]) for oi, op in enumerate(r["ops"]) if op[2] == [r_i, last]]
                if users:
                    ri, oi = users[nxt(len(users))]
                    case["routines"][r_i]["ops"].append(copy.deepcopy(ops[last]))
                    case["routines"][ri]["ops"][oi][2] = [r_i, last + 1]
                    applied.append("split_tail")
    return case, applied


# --------------------------------------------------------------------------------------
# free flow graphs (stratum 3) and the SsbScript domain (stratum 4)
# --------------------------------------------------------------------------------------
class SG:
    def __init__(self, draw, free_names=False):
        self.draw = draw
        self.n = 0
        self.free_names = free_names

    def i(self, lo, hi):
        return self.draw(st.integers(lo, hi))

    def b(self, num=1, den=2):
        return self.i(0, den - 1) < num

    def pick(self, seq):
        return seq[self.i(0, len(seq) - 1)]

    def text(self):
        s = "".join(self.pick(SAFE) for _ in range(self.i(0, 10)))
        k = self.i(0, 9)
        if k == 0:
            s += "'"
        elif k == 1:
            s += "\nsecond line"
        elif k == 2:
            s = "a\n  b\nc" + s
        elif k == 3:
            # what a string table of the game may hold besides plain text: message markup, a tab, a form feed, a path
            at = self.i(0, len(s))
            s = s[:at] + self.pick(["[CS:G]", "[CR]", "[K]", "\t", "\f", "C:\\dir", "\u2028", "\x0b", '"']) + s[at:]
        return s

    def var(self):
        self.n += 1
        if self.b(1, 4):
            return self.i(0, 200)
        return {"c": f"$V_{self.n}"}

    def val(self):
        k = self.i(0, 9)
        if k < 6:
            return self.i(-50, 500)
        if k < 9:
            return {"c": self.pick(["CONST_A", "ACTOR_PLAYER", "$x", "LEVEL_S01P01A", "lower_c"])}
        return {"d": self.pick(["1.5", "0.25", "-2.0", "63.996", "0.0000001", "-0.00000025", "1.9999999999999999", "0.99999999999999999", "9007199254740993.5", "0.00000000", "127.000000000000000001"])}

    def string(self):
        if self.b(1, 3):
            langs = [lang for lang in ["english", "french", "german"] if self.b()] or ["english"]
            return {"l": [[lang, self.text()] for lang in langs]}
        return {"s": self.text()}

    def any_param(self):
        k = self.i(0, 11)
        if k < 7:
            return self.val()
        if k < 10:
            return self.string()
        return {"p": [f"m{self.i(0, 5)}", self.pick([0, 0, 2, 4]), self.pick([0, 0, 2, 4]), self.i(-3, 80), self.i(-3, 80)]}

    def plain_op(self):
        self.n += 1
        if self.b(1, 5):
            name = self.pick(T.PLAIN_OPS)
            params = [100000 + self.n]
        else:
            name = f"op_{self.n}"
            params = []
        params += [self.any_param() for _ in range(self.i(0, 3))]
        return [name, params, None]

    def flag_op(self):
        k = self.i(0, 11)
        v = self.var
        if k == 0:
            return ["flag_CalcBit", [v(), self.i(0, 30), self.i(0, 1)], None]
        if k == 1:
            return ["flag_CalcValue", [v(), self.i(1, 4), self.val()], None]
        if k == 2:
            return ["flag_CalcVariable", [v(), self.i(0, 4), v()], None]
        if k == 3:
            return ["flag_Clear", [v()], None]
        if k == 4:
            return ["flag_Initial", [v()], None]
        if k == 5:
            return ["flag_Set", [v(), self.val()], None]
        if k == 6:
            return ["flag_ResetDungeonResult", [], None]
        if k == 7:
            return ["flag_ResetScenario", [v()], None]
        if k == 8:
            return ["flag_SetAdventureLog", [self.val()], None]
        if k == 9:
            return ["flag_SetDungeonMode", [v(), self.i(0, 3)], None]
        if k == 10:
            return ["flag_SetPerformance", [self.i(0, 30), self.i(0, 1)], None]
        return ["flag_SetScenario", [v(), self.i(0, 50), self.i(0, 9)], None]

    def branch_op(self):
        name = self.pick(list(T.OPS_BRANCH))
        v = self.var
        if name == "Branch":
            ps = [v(), self.val()]
        elif name == "BranchBit":
            ps = [v(), self.i(0, 40)]
        elif name in ("BranchDebug", "BranchEdit", "BranchVariation"):
            ps = [self.i(0, 1)]
        elif name == "BranchExecuteSub":
            ps = [self.val()]
        elif name == "BranchPerformance":
            ps = [self.i(0, 40), self.i(0, 1)]
        elif name.startswith("BranchScenario"):
            ps = [v(), self.i(0, 50), self.i(0, 9)]
        elif name == "BranchSum":
            ps = [self.val(), self.val(), self.val()]
        elif name == "BranchValue":
            ps = [v(), self.pick([0, 1, 3, 4, 5, 6, 7, 8, 9, 10]), self.val()]  # == is spelled Branch (F-C02-2)
        else:
            ps = [v(), self.i(0, 10), v()]
        return [name, ps, "T"]

    def case_op(self, menu, dmode, scn=False):
        if menu:
            if self.b():
                return ["CaseMenu", [self.string()], "T"]
            return ["CaseMenu2", [self.val()], "T"]
        k = self.i(0, 2)
        if k == 0 or dmode:
            return ["Case", [self.i(0, 3) if dmode else self.val()], "T"]
        if k == 1:
            # ExplorerScript can only say `case <op> V`: CaseScenario under SwitchScenario, CaseValue elsewhere
            # (the other combinations are known finding F-C02-2 and are not generated)
            return ["CaseScenario" if scn else "CaseValue", [self.i(0, 10), self.val()], "T"]
        return ["CaseVariable", [self.i(0, 10), self.var()], "T"]

    def switch_head(self):
        name = self.pick(list(T.SWITCH_CASE_MAP))
        self.n += 1
        if name in T.SWITCH_HEAD_OPS:
            ps = [self.var()] if T.SWITCH_HEAD_OPS[name] else []
        else:
            ps = [200000 + self.n] + [self.val() for _ in range(self.i(0, 2))]
        return [name, ps, None]

    def routine_ops(self, max_ops):
        ops = []
        n = self.i(1, max_ops)
        while len(ops) < n:
            k = self.i(0, 19)
            if k < 6:
                ops.append(self.plain_op())
            elif k < 8:
                ops.append(self.flag_op())
            elif k == 8:
                ops.append([self.pick(["lives", "object", "performer"]), [self.val_int_or_const()], None])
                if self.b(1, 6):
                    # an op that ends the flow of the entity it runs on; behind a context op it is an ordinary op
                    ops.append(["Destroy", [], None])
                else:
                    ops.append(self.plain_op() if self.b(3, 4) else self.flag_op())
            elif k < 12:
                ops.append(self.branch_op())
            elif k < 14:
                h = self.switch_head()
                ops.append(h)
                menu = T.SWITCH_CASE_MAP[h[0]] is T.MENU_CASES
                for _ in range(self.i(0, 4)):
                    ops.append(self.case_op(menu, h[0] == "SwitchDungeonMode", h[0] == "SwitchScenario"))
            elif k == 14:
                ops.append([self.pick(T.MSG_SWITCHES), [self.var()], None])
                for _ in range(self.i(0, 3)):
                    ops.append(["CaseText", [self.val_int_or_const(), self.string()], None])
                if self.b() or ops[-1][0] != "CaseText":
                    ops.append(["DefaultText", [self.string()], None])
            elif k < 17:
                ops.append(["Jump", [], "T"])
            elif k == 17:
                ops.append(["Call", [], "T"])
            else:
                t = self.pick(["Return", "End", "Hold"])
                ops.append([t, [], None])
                if t == "Hold" and self.b():
                    ops.append(["Return", [], None])
        if not (ops[-1][0] in T.STOP_OPS or ops[-1][0] == "Jump") or (len(ops) > 1 and ops[-2][0] in T.OPS_CTX):
            ops.append([self.pick(["Return", "End", "Hold", "Jump"]), [], None])
            if ops[-1][0] == "Jump":
                ops[-1][2] = "T"
        return ops

    def val_int_or_const(self):
        return self.i(0, 300) if self.b() else {"c": self.pick(["ACTOR_PLAYER", "CONST_A", "$x"])}

    def routines(self, max_routines=3, max_ops=12, well_formed=True):
        coro = self.b(1, 6)
        n = self.i(1, max_routines)
        rs = []
        for r_i in range(n):
            if coro:
                r = {"type": "COROUTINE", "target": None, "target_name": None, "name": f"CORO_{r_i}"}
            else:
                t = self.pick(["GENERIC", "GENERIC", "ACTOR", "OBJECT", "PERFORMER"])
                r = {"type": t, "target": None, "target_name": None, "name": None}
                if t != "GENERIC":
                    if self.b():
                        r["target"] = self.i(0, 300)
                    else:
                        r["target_name"] = self.pick(["ACTOR_PLAYER", "OBJ_X", "$v", "lower"])
            r["ops"] = self.routine_ops(max_ops)
            rs.append(r)
        # resolve targets
        all_pos = [[ri, oi] for ri, r in enumerate(rs) for oi in range(len(r["ops"]))]
        for ri, r in enumerate(rs):
            for oi, op in enumerate(r["ops"]):
                if op[2] == "T":
                    same = [p for p in all_pos if p[0] == ri]
                    if (op[0].startswith("Case") and oi >= 2 and r["ops"][oi - 1][0].startswith("Case") and r["ops"][oi - 2][0].startswith("Case")
                            and isinstance(r["ops"][oi - 2][2], list) and self.b(1, 2)):
                        # anchor shape: the case before the previous one goes to the same block (cases 0 and 2 share code,
                        # case 1 lies in between - not expressible as grouped cases)
                        op[2] = list(r["ops"][oi - 2][2])
                        continue
                    if self.b(5, 6):
                        fwd = [p for p in same if p[1] > oi]
                        pool = fwd if fwd and self.b(3, 4) else same
                    else:
                        pool = all_pos
                    op[2] = list(self.pick(pool))
        return rs


@st.composite
def free_graphs(draw, max_routines=3, max_ops=12):
    g = SG(draw)
    rs = g.routines(max_routines, max_ops)
    if draw(st.integers(0, 1)) == 0:
        # a copied routine: the same flow graph once more under other operation names (scripts are full of routines
        # made from one another) - whatever is numbered per routine comes out the same for both
        import copy
        import re

        k = draw(st.integers(0, len(rs) - 1))
        twin = copy.deepcopy(rs[k])
        if twin.get("name"):
            twin["name"] += "_T"
        for op in twin["ops"]:
            if re.fullmatch(r"op_\d+", op[0]):
                op[0] += "t"
            if isinstance(op[2], list) and op[2][0] == k:
                op[2] = [len(rs), op[2][1]]
        rs.append(twin)
    gaps = draw(st.lists(st.integers(0, 3), min_size=1, max_size=6))
    return {"stratum": 3, "routines": rs, "gaps": gaps, "first_offset": draw(st.integers(0, 5)), "name_table": draw(st.booleans())}


@st.composite
def ssbscript_domain(draw):
    """Stratum 4: arbitrary opcode names, unreachable ops, empty routines, all parameter kinds."""
    g = SG(draw, free_names=True)
    coro = g.b(1, 6)
    n = g.i(1, 4)
    rs = []
    for r_i in range(n):
        if coro:
            r = {"type": "COROUTINE", "target": None, "target_name": None, "name": g.pick(["CORO_", "EVENT_", "c_"]) + str(r_i)}
        else:
            t = g.pick(["GENERIC", "ACTOR", "OBJECT", "PERFORMER"])
            r = {"type": t, "target": None, "target_name": None, "name": None}
            if t != "GENERIC":
                if g.b():
                    r["target"] = g.i(-1, 400)
                    if r["target"] == -1:
                        r["target"] = 0
                else:
                    r["target_name"] = g.pick(["ACTOR_PLAYER", "OBJ_X", "$v", "lower", "_x9"])
        ops = []
        if not (r_i > 0 and g.b(1, 6)):
            for _ in range(g.i(1, 10)):
                k = g.i(0, 9)
                if k < 5:
                    g.n += 1
                    name = g.pick(["op_%d" % g.n, "Return", "End", "Hold", "lives", "Switch", "flag_Set", "CaseText", "message_SwitchTalk", "Destroy", "x", "_", "A9"])
                    ops.append([name, [g.any_param() for _ in range(g.i(0, 4))], None])
                elif k < 9:
                    name = g.pick(list(T.JUMP_OPS))
                    arity = T.JUMP_OPS[name]
                    ops.append([name, [g.any_param() for _ in range(arity)], "T"])
                else:
                    ops.append(g.plain_op())
        r["ops"] = ops
        rs.append(r)
    all_pos = [[ri, oi] for ri, r in enumerate(rs) for oi in range(len(r["ops"]))]
    for r in rs:
        for op in r["ops"]:
            if op[2] == "T":
                if all_pos:
                    op[2] = list(g.pick(all_pos))
                else:
                    op[2] = None
                    op[0] = "x"
    gaps = draw(st.lists(st.integers(0, 3), min_size=1, max_size=6))
    return {"stratum": 4, "routines": rs, "gaps": gaps, "first_offset": draw(st.integers(0, 5)), "name_table": draw(st.booleans())}


def describe(case) -> str:
    """Op listing for samples / messages."""
    offs = offsets_of(case)
    lines = []
    for r_i, r in enumerate(case["routines"]):
        head = r["type"]
        if r.get("name"):
            head += " " + r["name"]
        if r.get("target_name") or r.get("target") is not None:
            head += f" -> {r.get('target_name') or r.get('target')}"
        lines.append(f"routine {r_i} {head}")
        for i, (name, params, tgt) in enumerate(r["ops"]):
            t = f" -> @{offs[tgt[0]][tgt[1]]}" if tgt is not None else ""
            lines.append(f"  {offs[r_i][i]:3d} {name} {params}{t}")
    return "\n".join(lines)


def shrink_candidates(case):
    """delete one op (targets re-pointed to the following op) / one routine"""
    for r_i, r in enumerate(case["routines"]):
        for oi in range(len(r["ops"])):
            c = copy.deepcopy(case)
            ops = c["routines"][r_i]["ops"]
            if len(ops) <= 1:
                continue
            del ops[oi]

            def fn(t, r_i=r_i, oi=oi, n=len(ops)):
                if t[0] == r_i and t[1] > oi:
                    return [t[0], t[1] - 1]
                if t[0] == r_i and t[1] == oi and oi >= n:
                    return [t[0], n - 1]
                return t

            _retarget(c, fn)
            yield c
    if len(case["routines"]) > 1:
        last = len(case["routines"]) - 1
        c = copy.deepcopy(case)
        del c["routines"][last]
        ok = all(op[2] is None or op[2][0] != last for r in c["routines"] for op in r["ops"])
        if ok:
            yield c
    for r_i, r in enumerate(case["routines"]):
        for oi, op in enumerate(r["ops"]):
            if op[1] and op[0] not in T.JUMP_OPS and op[0] not in T.FLAG_OPS and op[0] not in T.SWITCH_CASE_MAP and op[0] not in T.OPS_CTX and op[0] not in T.MSG_SWITCHES and op[0] not in ("CaseText", "DefaultText"):
                c = copy.deepcopy(case)
                c["routines"][r_i]["ops"][oi][1] = []
                yield c
    if case.get("gaps") not in ([0], None):
        c = copy.deepcopy(case)
        c["gaps"] = [0]
        c["first_offset"] = 0
        yield c


def well_formed(case, ctx_any: bool = False) -> tuple[bool, str]:
    """The well-formedness the statements of C02/C06 require (strata 1-3). ctx_any: a context op may stand in front of
    ANY op (another context op, a branch, a switch ...) - the machine model has no single meaning for that, so only
    checks that do not need it (C06: totality and exact fallback) ask for it."""
    # a Destroy behind a context op is an ordinary op only when it is entered THROUGH the context op: a jump straight
    # to it would run it on the routine's own entity (and end the routine) - no single meaning, not generated
    for r in case["routines"]:
        for op in r["ops"]:
            if op[2] is not None and not ctx_any:
                tr, ti = op[2]
                tops = case["routines"][tr]["ops"]
                if 0 < ti < len(tops) and tops[ti][0] in T.STOP_OPS and tops[ti - 1][0] in T.OPS_CTX:
                    return False, "jump into a context pair whose op is flow-ending"
    for r_i, r in enumerate(case["routines"]):
        ops = r["ops"]
        if not ops:
            continue  # alias
        last = ops[-1]
        if not (last[0] in T.STOP_OPS or last[0] == "Jump"):
            return False, f"routine {r_i} does not end in a flow-ending op"
        if len(ops) > 1 and ops[-2][0] in T.OPS_CTX and not ctx_any:
            return False, f"routine {r_i}: last op is in a context"
        for i, op in enumerate(ops):
            name = op[0]
            prev = ops[i - 1][0] if i else None
            if name in T.OPS_CTX and not ctx_any:
                if i + 1 >= len(ops):
                    return False, "context op at end"
                nxt = ops[i + 1][0]
                if nxt in T.JUMP_OPS or (nxt in T.STOP_OPS and nxt != "Destroy") or nxt in T.OPS_CTX or nxt in T.SWITCH_CASE_MAP or nxt in T.MSG_SWITCHES or nxt in ("CaseText", "DefaultText"):
                    return False, "context op not followed by a plain op"
                if prev in T.OPS_CTX:
                    return False, "nested context"
            if name in T.OPS_CASE:
                # walk back over the case chain to the header
                j = i - 1
                while j >= 0 and ops[j][0] in T.OPS_CASE:
                    j -= 1
                if j < 0 or ops[j][0] not in T.SWITCH_CASE_MAP or name not in T.SWITCH_CASE_MAP[ops[j][0]]:
                    return False, f"{name} does not follow a matching switch header"
            if name in ("CaseText", "DefaultText"):
                j = i - 1
                while j >= 0 and ops[j][0] == "CaseText":
                    j -= 1
                if j < 0 or ops[j][0] not in T.MSG_SWITCHES:
                    return False, f"{name} does not follow a message switch"
                if prev == "DefaultText":
                    return False, "text case after DefaultText"
            if name in T.JUMP_OPS and op[2] is None:
                return False, "jump without target"
    # no cycle of Jump ops only - anywhere, also in code that is not reachable from a routine start
    rs = case["routines"]
    for r_i, r in enumerate(rs):
        for i, op in enumerate(r["ops"]):
            if op[0] == "Jump":
                seen = set()
                cur = (r_i, i)
                while True:
                    o = rs[cur[0]]["ops"][cur[1]]
                    if o[0] != "Jump" or o[2] is None or (cur[1] > 0 and rs[cur[0]]["ops"][cur[1] - 1][0] in T.OPS_CTX):
                        break
                    if cur in seen:
                        return False, "cycle of Jump ops only"
                    seen.add(cur)
                    cur = (o[2][0], o[2][1])
    return True, ""


def locally_reachable(case, r_i) -> set[int]:
    """Indices of the ops of routine r_i that can be reached from its first op without leaving the routine - in the
    flow graph the decompiler builds: if the routine set contains a Call anywhere, it keeps the edge from a
    Return / End / Hold / Destroy to the op behind it (a called subroutine returns there), so code behind such an op
    counts as reachable; a Jump / JumpCommon never has that edge."""
    ops = case["routines"][r_i]["ops"]
    has_calls = any(op[0] == "Call" for r in case["routines"] for op in r["ops"])
    seen: set[int] = set()
    stack = [0] if ops else []
    while stack:
        i = stack.pop()
        if i in seen or i >= len(ops):
            continue
        seen.add(i)
        name, _, tgt = ops[i]
        in_ctx = i > 0 and ops[i - 1][0] in T.OPS_CTX
        if tgt is not None and tgt[0] == r_i and not in_ctx:
            stack.append(tgt[1])
        if in_ctx or not (name == "Jump" or name in T.STOP_OPS):
            stack.append(i + 1)
        elif has_calls and name not in ("Jump", "JumpCommon"):
            stack.append(i + 1)
    return seen


def foreign_targets_not_locally_reachable(case) -> bool:
    cache = {}
    for r_i, r in enumerate(case["routines"]):
        reach_src = cache.setdefault(r_i, locally_reachable(case, r_i))
        for oi, op in enumerate(r["ops"]):
            if op[2] is not None and op[2][0] != r_i:
                tr = op[2][0]
                reach = cache.setdefault(tr, locally_reachable(case, tr))
                if op[2][1] not in reach:
                    return True
    return False


def insert_ctx_ops(case, inserts):
    """inserts: [(routine draw, position draw, ctx op name, target value)]: a context op is put in front of the op at
    that position (any op); jumps to later ops move on, a jump to that op now enters through the context op."""
    import copy

    case = copy.deepcopy(case)
    for rd, pd, name, val in inserts:
        rs = [i for i, r in enumerate(case["routines"]) if r["ops"]]
        if not rs:
            break
        r_i = rs[rd % len(rs)]
        ops = case["routines"][r_i]["ops"]
        pos = pd % len(ops)
        for r in case["routines"]:
            for op in r["ops"]:
                if op[2] is not None and op[2][0] == r_i and op[2][1] > pos:
                    op[2] = [r_i, op[2][1] + 1]
        ops.insert(pos, [name, [val], None])
    return case


def inexpressible_case_ops(case) -> bool:
    """CaseScenario outside SwitchScenario / CaseValue under SwitchScenario (known finding F-C02-2)."""
    for r in case["routines"]:
        ops = r["ops"]
        for i, op in enumerate(ops):
            if op[0] in ("CaseScenario", "CaseValue"):
                j = i - 1
                while j >= 0 and ops[j][0] in T.OPS_CASE:
                    j -= 1
                head = ops[j][0] if j >= 0 else None
                if (op[0] == "CaseScenario") != (head == "SwitchScenario"):
                    return True
            if op[0] == "BranchValue" and len(op[1]) == 3 and op[1][1] == 2:
                return True  # `X == V` is the spelling of Branch, BranchValue with == has none
    return False


def case_jumps_backward_or_into_chain(case) -> bool:
    """Known finding F-C02-8: a case op whose target lies at or before the end of its own case chain."""
    for r_i, r in enumerate(case["routines"]):
        ops = r["ops"]
        for i, op in enumerate(ops):
            if op[0] in T.OPS_CASE and op[2] is not None and op[2][0] == r_i:
                j = i
                while j + 1 < len(ops) and ops[j + 1][0] in T.OPS_CASE:
                    j += 1
                # the minimizer removes Jump vertices: a target that is a Jump (chain) back into the case chain counts
                t, hops = op[2][1], 0
                while 0 <= t < len(ops) and ops[t][0] == "Jump" and ops[t][2] is not None and ops[t][2][0] == r_i and hops < len(ops):
                    t = ops[t][2][1]
                    hops += 1
                if op[2][1] <= j or t <= j:
                    return True
    return False


def case_op_is_jump_target(case) -> bool:
    """Known finding F-C02-13: a Case* op that some op jumps to, i.e. a case chain entered without passing its switch
    header (the language has no syntax for that; the structuring passes assume that cases are reached from their header)."""
    for r in case["routines"]:
        for op in r["ops"]:
            if op[2] is not None:
                tr, ti = op[2]
                tops = case["routines"][tr]["ops"]
                if 0 <= ti < len(tops) and tops[ti][0] in T.OPS_CASE:
                    return True
    return False


def call_target_only_reachable_by_call(case) -> bool:
    """Known finding F-C02-7: the writers never follow the taken edge of a call, so code that is reached only
    that way is not written. Mirrors the decompiler's own reachability: with calls present flow is taken to
    continue past Return/End/Hold, but not past Jump."""
    for r_i, r in enumerate(case["routines"]):
        ops = r["ops"]
        calls = [(i, op) for i, op in enumerate(ops) if op[0] == "Call" and op[2] is not None and op[2][0] == r_i]
        if not calls:
            continue
        seen: set[int] = set()
        stack = [0]
        while stack:
            i = stack.pop()
            if i in seen or i >= len(ops):
                continue
            seen.add(i)
            name, _, tgt = ops[i]
            if tgt is not None and tgt[0] == r_i and name != "Call":
                stack.append(tgt[1])
            if name != "Jump" and name != "JumpCommon":
                stack.append(i + 1)
        for i, op in calls:
            if i in seen and op[2][1] not in seen:
                return True
    return False


def _succ(ops, r_i, i):
    name, _, tgt = ops[i]
    out = []
    in_ctx = i > 0 and ops[i - 1][0] in T.OPS_CTX
    if tgt is not None and tgt[0] == r_i and not in_ctx:
        out.append(tgt[1])
    if (in_ctx or not (name == "Jump" or name in T.STOP_OPS)) and i + 1 < len(ops):
        out.append(i + 1)
    return out


def degenerate_branch_in_loop(case) -> bool:
    """Known finding F-C02-9: a conditional branch (Branch* or Case* op) whose target is the op it falls through to
    anyway, lying on a cycle (the loop builder mishandles the two parallel edges)."""
    def through_jumps(ops, r_i, k):
        # the minimizer removes Jump vertices, so "falls through to a Jump to X" is the same edge as "goes to X"
        hops = 0
        while 0 <= k < len(ops) and ops[k][0] == "Jump" and ops[k][2] is not None and ops[k][2][0] == r_i and hops < len(ops) \
                and not (k > 0 and ops[k - 1][0] in T.OPS_CTX):
            k = ops[k][2][1]
            hops += 1
        return k

    # the cycle is one of the DECOMPILER's flow graph: with a Call anywhere in the routine set it keeps the edge from a
    # Return / End / Hold / Destroy to the op behind it (see locally_reachable)
    has_calls = any(op[0] == "Call" for r in case["routines"] for op in r["ops"])

    def succ(ops, r_i, k):
        out = _succ(ops, r_i, k)
        if has_calls and ops[k][0] in T.STOP_OPS and ops[k][0] != "JumpCommon" and k + 1 < len(ops) and k + 1 not in out:
            out.append(k + 1)
        return out

    for r_i, r in enumerate(case["routines"]):
        ops = r["ops"]
        for i, op in enumerate(ops):
            if (op[0] in T.OPS_BRANCH or op[0] in T.OPS_CASE) and op[2] is not None and op[2][0] == r_i and i + 1 < len(ops) \
                    and through_jumps(ops, r_i, op[2][1]) == through_jumps(ops, r_i, i + 1):
                seen, stack = set(), [i + 1]
                while stack:
                    k = stack.pop()
                    if k in seen or k >= len(ops):
                        continue
                    seen.add(k)
                    stack.extend(succ(ops, r_i, k))
                if i in seen:
                    return True
    return False


def call_on_cycle(case) -> bool:
    """Known finding F-C02-11: a Call op that lies on a cycle through its fall-through edge (loop building turns the
    way back into break_loop)."""
    for r_i, r in enumerate(case["routines"]):
        ops = r["ops"]
        for i, op in enumerate(ops):
            if op[0] == "Call" and i + 1 < len(ops):
                seen, stack = set(), [i + 1]
                while stack:
                    k = stack.pop()
                    if k in seen or k >= len(ops):
                        continue
                    seen.add(k)
                    stack.extend(_succ(ops, r_i, k))
                if i in seen:
                    return True
    return False
