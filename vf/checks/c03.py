"""C03 - compiled output is a closed, uniquely addressed op list (DESIGN.md 4, C03)."""
from __future__ import annotations

from hypothesis import strategies as st

from vf import gen_macro, gen_prog, render, spec_tables as T
from vf.core import Failure, call_guard
from vf.cut import compile_text, compile_ssbs, decompile_ssbs, documented_errors

ID = "C03"
LEVEL = "exploration"
RULE = (
    "gen_prog programs (macro-free and with macros/nested macro calls, alias routines, labels at routine/file end, "
    "cross-routine jumps, removed jumps, with-blocks around jumps / calls / control statements) compiled with the ExplorerScript compiler; the same op lists printed as "
    "SsbScript and compiled with the SsbScript compiler. Invariant on every result: offsets pairwise distinct over all "
    "routines; every op of a jump-carrying kind has an int last parameter that is the offset of an op in the result; no "
    "ES_* pseudo op / label object remains; the three tables have equal length. Non-trivial = result has >= 1 "
    "jump-carrying op AND >= 1 offset gap (an op was dropped); distinct by AST hash."
)
ASSUMPTIONS = [
    "jump-carrying kinds = Jump, Call, Branch*, Case* as listed in DESIGN.md Appendix A (vf/spec_tables.py)",
    "programs rejected with a documented error are outside the quantifier (counted as rejected)",
]
CASES = {"quick": 6400, "thorough": 120000}


@st.composite
def ssbs_programs(draw):
    """SsbScript SOURCES written by this harness (not by the repository's decompiler): labels in front of ops, several
    labels on one op, labels at routine ends and at the very end of the file, a label defined twice, jumps to any of
    them from any routine, alias routines."""
    from vf import gen_ssb

    case = draw(gen_ssb.ssbscript_domain())
    n_extra = draw(st.integers(0, 3))
    extra = []
    for k in range(n_extra):
        r_i = draw(st.integers(0, len(case["routines"]) - 1))
        at = draw(st.sampled_from(["end", "end", "front", "dup"]))
        extra.append([r_i, at, draw(st.integers(0, 50))])
    retarget = draw(st.lists(st.tuples(st.integers(0, 50), st.integers(0, 5)).map(list), max_size=3))
    return {"ssbs": case, "extra": extra, "retarget": retarget}


def ssbs_text(c):
    from vf import render

    case, extra, retarget = c["ssbs"], c["extra"], c["retarget"]
    ch = lambda n: 0  # noqa
    dims = set()

    def val(p):
        if isinstance(p, int):
            return str(p)
        if "c" in p:
            return p["c"]
        if "s" in p:
            return render.spell_string(p["s"], ch, dims, allow_multiline=False)
        if "l" in p:
            return "{" + ", ".join(f"{a}={render.spell_string(b, ch, dims, allow_multiline=False)}" for a, b in p["l"]) + "}"
        if "p" in p:
            n, xo, yo, x, y = p["p"]
            return f"Position<'{n}', {x}{'.5' if xo > 1 else ''}, {y}{'.5' if yo > 1 else ''}>"
        return p["d"]

    jumps = [(ri, oi) for ri, r in enumerate(case["routines"]) for oi, op in enumerate(r["ops"]) if op[2] is not None]
    extra_names = [f"x{k}" for k in range(len(extra))]
    override = {}
    for (j, k) in retarget:
        if jumps and extra_names:
            override[jumps[j % len(jumps)]] = extra_names[k % len(extra_names)]
    before = {}
    for ri, r in enumerate(case["routines"]):
        for oi, op in enumerate(r["ops"]):
            if op[2] is not None:
                before.setdefault((op[2][0], op[2][1]), []).append(f"l{op[2][0]}_{op[2][1]}")
    ends = {}
    for k, (r_i, at, n) in enumerate(extra):
        ops = case["routines"][r_i]["ops"]
        if at in ("end", "dup") or not ops:
            ends.setdefault(r_i, []).append(extra_names[k])
        if at == "front" and ops:
            before.setdefault((r_i, n % len(ops)), []).append(extra_names[k])
        if at == "dup" and ops:
            before.setdefault((r_i, n % len(ops)), []).append(extra_names[k])  # defined twice
    out = []
    for ri, r in enumerate(case["routines"]):
        if r["type"] == "COROUTINE":
            head = f"coro {r['name']}"
        elif r["type"] == "GENERIC":
            head = f"def {ri}"
        else:
            head = f"def {ri} for {r['type'].lower()} {r.get('target_name') or r.get('target')}"
        out.append(head + " {")
        if not r["ops"] and not ends.get(ri):
            out.append("    alias previous;")
        for oi, (name, params, tgt) in enumerate(r["ops"]):
            for lab in dict.fromkeys(before.get((ri, oi), [])):
                out.append(f"    §{lab};" if (oi + ri) % 2 else f"    @{lab};")
            args = [val(p) for p in params]
            if tgt is not None:
                args.append("@" + override.get((ri, oi), f"l{tgt[0]}_{tgt[1]}"))
            out.append(f"    {name}({', '.join(args)});")
        for lab in ends.get(ri, []):
            out.append(f"    @{lab};")
        out.append("}")
    return "\n".join(out) + "\n"


def strategy(tier):
    return st.one_of(gen_prog.programs(max_stmts=40, with_control=True), gen_macro.macro_programs(single_file=True, with_control=True), ssbs_programs())


def invariant(comp, what, fails, text):
    from explorerscript.ssb_converting.ssb_special_ops import SsbLabel, SsbLabelJump, SsbForeignLabel

    ro, ri, nc = comp.routine_ops, comp.routine_infos, comp.named_coroutines
    if ro is None or ri is None or nc is None:
        fails.append(Failure(f"{what}:tables_none", f"a result table is None\n{text}"))
        return None
    if not (len(ro) == len(ri) == len(nc)):
        fails.append(Failure(f"{what}:table_lengths", f"len ops/infos/coroutines = {len(ro)}/{len(ri)}/{len(nc)}\n{text}"))
    offsets = {}
    njump = 0
    for r_i, r in enumerate(ro):
        for op in r:
            if isinstance(op, (SsbLabel, SsbLabelJump, SsbForeignLabel)) or op.op_code.name.startswith("ES_"):
                fails.append(Failure(f"{what}:pseudo_op", f"pseudo op {op.op_code.name} remains in routine {r_i}\n{text}"))
                return None
            if not isinstance(op.offset, int) or op.offset in offsets:
                fails.append(Failure(f"{what}:duplicate_offset", f"offset {op.offset} used twice (routine {r_i})\n{text}"))
                return None
            offsets[op.offset] = (r_i, op)
    for r_i, r in enumerate(ro):
        for i, op in enumerate(r):
            if op.op_code.name in T.JUMP_OPS:
                njump += 1
                if not op.params or not isinstance(op.params[-1], int) or isinstance(op.params[-1], bool):
                    fails.append(Failure(f"{what}:no_target", f"{op.op_code.name}@{op.offset} params {op.params!r}: last is not an int\n{text}"))
                    continue
                if op.params[-1] not in offsets:
                    fails.append(Failure(f"{what}:dangling_target", f"{op.op_code.name}@{op.offset} -> {op.params[-1]} is not an op of the result\n{text}"))
                want = T.JUMP_OPS[op.op_code.name]
                if what == "exps" and len(op.params) != want + 1 and op.op_code.name in ("Jump", "Call"):
                    fails.append(Failure(f"{what}:arity", f"{op.op_code.name}@{op.offset} has params {op.params!r}\n{text}"))
    allo = sorted(offsets)
    gaps = any(b - a > 1 for a, b in zip(allo, allo[1:])) or (allo and allo[0] > 1)
    return njump, gaps


def evaluate_ssbs(case, stt):
    fails = []
    text = ssbs_text(case)
    stt.count("ssbscript_source")
    for r_i, at, n in case["extra"]:
        stt.count("ssbs_label:" + at)
    for entry, via in (("ssbs_compiler", lambda: compile_ssbs(text)), ("exps_compiler_with_marker", lambda: compile_text("//?: is-ssb-script: true\n" + text))):
        comp, exc = call_guard(via)
        if exc is not None:
            stt.count(f"{entry}:rejected")
            if not exc[0].startswith("exc:ParseError") and not exc[0].startswith("exc:SsbCompilerError") and not exc[0].startswith("exc:ValueError"):
                stt.count(f"{entry}:undocumented_exception_(C10)")
            continue
        stt.count(f"{entry}:accepted")
        res = invariant(comp, "ssbs_src", fails, text)
        if res is not None and res[0]:
            stt.mark_nontrivial(case)
    return fails


def evaluate(case, stt):
    if "ssbs" in case:
        return evaluate_ssbs(case, stt)
    fails = []
    prog = case
    for c in gen_prog.classify(prog):
        stt.count(c)
    if prog.get("macros"):
        stt.count("with_macros")
    text = render.render(prog).text
    comp, exc = call_guard(lambda: compile_text(text))
    if exc is not None:
        stt.count("rejected_by_compiler")
        stt.add("rejected:" + exc[0])
        return fails
    res = invariant(comp, "exps", fails, text)
    if res is not None:
        njump, gaps = res
        if njump and gaps:
            stt.mark_nontrivial(prog)
        if gaps:
            stt.count("offset_gap")
        if len(stt.samples) < 2 and njump > 2 and gaps:
            stt.sample({"source": text, "ops": [[(o.offset, o.op_code.name, [str(p) for p in o.params]) for o in r] for r in comp.routine_ops]})
    # SsbScript compiler on the same op lists
    from explorerscript.ssb_converting.ssb_data_types import SsbCoroutine

    if res is not None and not fails:
        named = [SsbCoroutine(i, n) for i, n in enumerate(comp.named_coroutines) if isinstance(n, str)]
        out, exc = call_guard(lambda: decompile_ssbs(comp.routine_infos, comp.routine_ops, named))
        if exc is None:
            comp2, exc2 = call_guard(lambda: compile_ssbs(out[0]))
            if exc2 is None:
                stt.count("ssbscript_compiled")
                invariant(comp2, "ssbs", fails, out[0])
            else:
                stt.count("ssbscript_rejected")
        else:
            stt.count("ssbscript_print_failed")
    return fails


def shrink_candidates(case):
    if "ssbs" in case:
        from vf import gen_ssb

        for c in gen_ssb.shrink_candidates(case["ssbs"]):
            yield dict(case, ssbs=c)
        for i in range(len(case["extra"])):
            yield dict(case, extra=case["extra"][:i] + case["extra"][i + 1:])
        return
    yield from gen_prog.shrink_candidates(case)
