"""Verification framework (property-based testing / fuzzing) for tech-ticks/ExplorerScript."""
