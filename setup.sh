#!/bin/sh
# Offline setup: make sure hypothesis is importable in /venv (the repository is installed there, editable).
set -e
cd "$(dirname "$0")"
if ! /venv/bin/python -c "import hypothesis" 2>/dev/null; then
  PIP_NO_INDEX=1 /venv/bin/pip install --no-index --find-links /opt/veriftools/wheels hypothesis
fi
/venv/bin/python -c "import hypothesis, explorerscript, sys; print('setup ok', hypothesis.__version__, explorerscript.__file__)"
