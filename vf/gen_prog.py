"""Program generator (DESIGN.md 3.4): constructs valid ExplorerScript programs as plain-data ASTs."""
from __future__ import annotations

from hypothesis import strategies as st

from vf import spec_tables as T

SAFE_CHARS = "abcdefghijklmnopqrstuvwxyzABCDEFGHIJKLMNOPQRSTUVWXYZ0123456789 .,!?-_:;()[]#+*/=<>%&@~^|{}$"
COND_OPS = list(T.COND_OPS)
ASSIGN_OPS = list(T.ASSIGN_OPS)
SCN_OPS = list(T.SCN_BRANCH)
LANGS = ["english", "french", "german", "italian", "spanish", "japanese"]


class G:
    """One generation run: wraps `draw` and carries the counters that make names unique."""

    def __init__(self, draw, *, flat=False, macros=False, max_stmts=40, max_depth=4, pos_marks=True, strings="simple",
                 labels=True, coro_file=None, with_control=False, may_be_rejected=False):
        self.draw = draw
        self.may_be_rejected = may_be_rejected
        # with-blocks around jumps / calls / control statements: accepted by the language, but what a jump executed
        # "in the context of" an entity does is not specified - only checks whose oracle does not need the machine
        # semantics switch this on
        self.with_control = with_control
        self.flat = flat
        self.n_op = 0
        self.n_var = 0
        self.n_pos = 0
        self.budget = max_stmts
        self.max_depth = max_depth
        self.pos_marks = pos_marks
        self.strings = strings
        self.use_labels = labels and not flat
        self.label_pool: list[str] = []
        self.labels_defined: set[str] = set()
        self.labels_used: set[str] = set()
        self.macro_names: list[str] = []  # callable macros (with arity) in the current scope
        self.macro_arity: dict[str, int] = {}
        self.params_in_scope: list[str] = []
        self.cur_routine = None  # id of the routine whose body is being generated (None: macro bodies)
        self.n_side = 0
        self.side_boost = False
        self.degenerate_macros: list[str] = []  # macros whose body is an anchor shape (only a return, ...)
        self.side_entries: list[tuple[str, int]] = []

    # -- primitives
    def i(self, lo, hi):
        return self.draw(st.integers(lo, hi))

    def b(self, p_num=1, p_den=2):
        return self.draw(st.integers(0, p_den - 1)) < p_num

    def pick(self, seq):
        return seq[self.i(0, len(seq) - 1)]

    # -- values
    def int_value(self):
        k = self.i(0, 9)
        if k < 6:
            return {"t": "int", "v": self.i(-20, 300)}
        if k < 9:
            return {"t": "int", "v": self.i(-32768, 32767)}
        return {"t": "int", "v": self.draw(st.integers(-(10**12), 10**12))}

    def const_value(self):
        if self.params_in_scope and self.b(1, 2):
            return {"t": "const", "v": self.pick(self.params_in_scope)}
        k = self.i(0, 3)
        if k == 0:
            return {"t": "const", "v": "$" + self.pick(["SCENARIO_MAIN", "GROUND_ENTER", "EVENT_LOCAL", "x", "Var_1"])}
        return {"t": "const", "v": self.pick(["ACTOR_PLAYER", "CONST_A", "DIR_DOWN", "lower_case", "_under", "LEVEL_S01P01A", "X1"])}

    def dec_value(self):
        whole = self.pick(["0", "1", "12", "63", ""])
        frac = self.pick(["5", "0", "25", "996", "50", "05", "125"])
        if self.b(1, 6):
            # sizes: many decimal places (runs of nines / zeros), whole parts beyond the precision of a double
            whole = self.pick(["0", "1", "127", "9007199254740993", "123456789012345678901234", "0"])
            frac = self.pick(["9" * 17, "0000001", "00000025", "0" * 8, "9999999999999999", "12345678901234567890", "5" + "0" * 12, "000000000000000000001"])
        if whole == "" and self.b():
            whole = "0"
        neg = "-" if self.b(1, 3) else ""
        return {"t": "dec", "v": f"{neg}{whole}.{frac}"}

    def integer_like(self):
        k = self.i(0, 9)
        if k < 5:
            return self.int_value()
        if k < 9:
            return self.const_value()
        return self.dec_value()

    def var(self):
        """A fresh, unique variable constant (so that header ops are attributable)."""
        self.n_var += 1
        return {"t": "const", "v": f"$V_{self.n_var}"}

    def text(self, multiline_ok=True):
        n = self.i(0, 12)
        s = "".join(self.pick(SAFE_CHARS) for _ in range(n))
        k = self.i(0, 9)
        if k == 0:
            s += "'"
        elif k == 1:
            s = '"' + s
        elif k == 2 and multiline_ok:
            s = (s or "a") + "\n" + self.pick(["second line", "x", "B: 'q'"])
        elif k == 3 and multiline_ok:
            s = (s.strip() or "a") + "\n" + "b\nc"
        elif k == 4:
            # the markup the game's message strings carry: [K], [hero], [CS:G]..[CR], [VS:1:2], unbalanced brackets
            tags = ["[K]", "[C]", "[hero]", "[CS:G]", "[CR]", "[VS:1:2]", "[M:D1]", "[", "]", "[:", "[a b:c]", "[CN]", "[FT:0]",
                    # text that is not in Unicode normal form (a base letter + combining mark, Hangul jamo)
                    "e\u0301", "\u1100\u1161", "a\u0308\u0323"]
            at = self.i(0, len(s))
            s = s[:at] + self.pick(tags) + s[at:] + (self.pick(tags) if self.b() else "")
        return s

    def str_value(self):
        return {"t": "str", "v": self.text()}

    def lang_value(self):
        n = self.i(1, 3)
        langs = []
        for lang in LANGS:
            if len(langs) < n and self.b():
                langs.append(lang)
        if not langs:
            langs = ["english"]
        return {"t": "lang", "v": [[lang, self.text()] for lang in langs]}

    def string(self):
        return self.lang_value() if self.b(1, 3) else self.str_value()

    def pos_value(self):
        self.n_pos += 1
        # names are string literals; a quarter of them carry blanks, quote characters, non-ASCII letters
        deco = self.pick(["", "", "", "", "", "", " gate", " it's", ' the "old" one', " \u00e9\u65e5", " a'b\"c"])
        return {
            "t": "pos",
            "name": f"m{self.n_pos}" + deco,
            "x": self.i(-3, 70),
            "xh": self.b(1, 3),
            "y": self.i(-3, 70),
            "yh": self.b(1, 3),
        }

    def arg(self):
        k = self.i(0, 11)
        if k < 7:
            return self.integer_like()
        if k < 9:
            return self.str_value()
        if k < 10:
            return self.lang_value()
        if self.pos_marks:
            return self.pos_value()
        return self.int_value()

    def op(self, ctx_ok=True, nargs=None):
        self.n_op += 1
        if nargs is None and self.b(1, 14):
            # an operation that ends the flow of the entity it runs on - run on another entity (inline context, or the
            # with-block this call is made for) it is an ordinary statement
            o = {"k": "op", "name": "Destroy", "args": [], "ctx": None}
            if ctx_ok:
                o["ctx"] = {"type": self.pick(["actor", "object", "performer"]), "val": self.ctx_target()}
            return o
        if self.b(1, 5):
            name = self.pick(T.PLAIN_OPS)
            args = [{"t": "int", "v": 100000 + self.n_op}]
        else:
            name = f"op_{self.n_op}"
            args = []
        n = self.i(0, 3) if nargs is None else nargs
        args += [self.arg() for _ in range(n)]
        o = {"k": "op", "name": name, "args": args, "ctx": None}
        if ctx_ok and self.b(1, 8):
            o["ctx"] = {"type": self.pick(["actor", "object", "performer"]), "val": self.ctx_target()}
        return o

    def ctx_target(self):
        return self.int_value() if self.b() else self.const_value()

    def assignment(self):
        k = self.i(0, 11)
        if k < 4:
            s = {"k": "assign", "form": "regular", "target": self.var(), "bit": None, "op": self.pick(ASSIGN_OPS),
                 "val": self.integer_like(), "value_of": self.b(1, 3)}
            return s
        if k == 4:
            tgt = {"t": "const", "v": T.PERF_VAR} if self.b(1, 3) else self.var()
            return {"k": "assign", "form": "regular", "target": tgt, "bit": self.i(0, 40), "op": "=",
                    "val": {"t": "int", "v": self.i(0, 1)}, "value_of": False}
        if k == 5:
            return {"k": "assign", "form": "clear", "target": self.var()}
        if k == 6:
            return {"k": "assign", "form": "init", "target": self.var()}
        if k == 7:
            return {"k": "assign", "form": "reset_dr"}
        if k == 8:
            return {"k": "assign", "form": "reset_scn", "target": self.var()}
        if k == 9:
            return {"k": "assign", "form": "advlog", "val": self.integer_like()}
        if k == 10:
            val = self.pick([{"t": "int", "v": self.i(0, 3)}, {"t": "const", "v": self.pick(T.DUNGEON_MODE_CONSTANTS)}])
            return {"k": "assign", "form": "dmode", "target": self.var(), "val": val}
        return {"k": "assign", "form": "scn", "target": self.var(), "a": self.i(0, 60), "b": self.i(0, 9)}

    def plain_simple(self):
        """operation or assignment (allowed everywhere, incl. with-blocks and for slots)."""
        return self.assignment() if self.b(1, 3) else self.op()

    def cond(self):
        k = self.i(0, 11)
        if k < 5:
            return {"c": "op", "l": self.var(), "op": self.pick(COND_OPS), "r": self.integer_like(), "value_of": self.b(1, 3)}
        if k < 7:
            if self.b(1, 2):
                return {"c": "bit", "not": self.b(), "var": {"t": "const", "v": T.PERF_VAR}, "i": self.i(0, 60)}
            return {"c": "bit", "not": False, "var": self.var(), "i": self.i(0, 60)}
        if k < 9:
            return {"c": "neg", "not": self.b(), "kw": self.pick(["debug", "edit", "variation"])}
        if k < 11:
            return {"c": "scn", "var": self.var(), "op": self.pick(SCN_OPS), "a": self.i(0, 60), "b": self.i(0, 9)}
        # only branch ops without own syntax; their parameter types are free (Branch / BranchBit written as
        # operations would need the parameter types their special syntax prints)
        name = self.pick(["BranchExecuteSub", "BranchSum"])
        self.n_op += 1
        nargs = T.OPS_BRANCH[name]
        # (strings too: the decompiler prints a string with line breaks over several lines - a multi-line header)
        args = [{"t": "int", "v": 200000 + self.n_op}] + [self.cond_arg() for _ in range(nargs - 1)]
        return {"c": "opn", "op": {"k": "op", "name": name, "args": args, "ctx": None}}

    def for_slot(self):
        """init / increment statement of a for loop: any simple statement (the grammar's simple_stmt); continue / break /
        break_loop are left out (whether they refer to this loop or to the enclosing construct is not specified)"""
        k = self.i(0, 11)
        if k < 8 or not self.use_labels:
            return self.plain_simple()
        if k == 8:
            return {"k": "ctl", "v": self.pick(["return", "end", "hold"])}
        if k == 9 and self.label_pool:
            lab = self.pick(self.label_pool)
            self.labels_used.add(lab)
            return {"k": self.pick(["jump", "call"]), "label": lab}
        undefined = [lab for lab in self.label_pool if lab not in self.labels_defined]
        if k == 10 and undefined:
            self.labels_defined.add(undefined[0])
            return {"k": "label", "name": undefined[0]}
        return self.plain_simple()

    def cond_arg(self):
        """argument of an operation used as condition / switch header: any parameter kind"""
        k = self.i(0, 8)
        if k < 2:
            return self.string()
        if k == 2 and self.pos_marks:
            return self.pos_value()
        return self.integer_like()

    # -- statements
    def take(self, n=1):
        self.budget -= n

    def block(self, depth, in_loop, in_case, min_len=0, max_len=4):
        n = self.i(min_len, max_len)
        out = []
        # anchor shape: a block that is exactly one macro call
        if not self.flat and n <= 1 and self.macro_names and self.b(1, 4):
            self.take()
            return [self.macro_call(prefer=self.degenerate_macros)]
        # anchor shapes: a block that is exactly one jump / break / continue
        if not self.flat and n <= 1 and self.b(1, 4):
            s = self.lone_control(in_loop, in_case)
            if s is not None:
                self.take()
                return [self.maybe_with(s)]
        for _ in range(n):
            if self.budget <= 0:
                break
            out.append(self.stmt(depth, in_loop, in_case))
        if not self.flat and self.b(1, 24):
            # a run of 2-4 control statements at the end of a block (everything behind the first is dead code, the
            # compiler drops redundant jumps one after the other)
            c = self.lone_control(in_loop, in_case)
            if c is not None:
                out += [dict(c) for _ in range(self.i(2, 4))]
        if self.use_labels and self.cur_routine is not None and self.b(1, 3 if self.side_boost else 12):
            out += self.side_entry(in_loop, in_case)
        elif self.b(1, 16):
            out.append({"k": "op", "name": self.pick(["Destroy", "Destroy", "JumpCommon"]), "args": [] if self.b() else [self.int_value()], "ctx": None})
        return out

    def side_entry(self, in_loop, in_case):
        """anchor shape: code that is dead for its own routine and entered only through a label another routine jumps
        to: <flow-ending statement> @se_N; <nothing | control statement | op>"""
        self.n_side += 1
        lab = f"se_{self.n_side}"
        self.side_entries.append((lab, self.cur_routine))
        self.labels_defined.add(lab)
        opts = [{"k": "ctl", "v": self.pick(["return", "end", "hold"])}]
        if in_loop:
            opts.append({"k": "ctl", "v": self.pick(["continue", "break_loop"])})
        if in_case:
            opts.append({"k": "ctl", "v": "break"})
        out = [self.pick(opts), {"k": "label", "name": lab}]
        k = self.i(0, 3)
        if k == 0:
            c = self.lone_control(in_loop, in_case)
            if c is not None and not (c["k"] == "jump"):
                out.append(c)
        elif k == 1:
            out.append(self.op())
        elif k == 2 and in_case:
            out.append({"k": "ctl", "v": "break"})
        return out

    def maybe_with(self, s):
        """a with-block takes any simple statement but a label (language_spec: with-Blocks): also jumps, calls and
        control statements"""
        if self.with_control and self.b(1, 5):
            return {"k": "with", "type": self.pick(["actor", "object", "performer"]), "val": self.ctx_target(), "stmt": s}
        return s

    def lone_control(self, in_loop, in_case):
        opts = []
        if self.use_labels and self.label_pool:
            opts.append("jump")
        if in_loop:
            opts += ["continue", "break_loop"]
        if in_case:
            opts.append("break")
        opts.append("return")
        k = self.pick(opts)
        if k == "jump":
            lab = self.pick(self.label_pool)
            self.labels_used.add(lab)
            return {"k": "jump", "label": lab}
        return {"k": "ctl", "v": k}

    def flat_block(self, may_end=True):
        n = self.i(0, 3)
        out = []
        for _ in range(n):
            self.take()
            out.append(self.plain_stmt())
        if may_end and self.b(1, 10):
            # an operation that ends the flow of the routine's own entity as the last statement of a block (not of an else
            # block / default case: together with the other blocks that could leave the rest of the routine dead)
            out.append({"k": "op", "name": "Destroy", "args": [], "ctx": None})
        return out

    def plain_stmt(self):
        k = self.i(0, 9)
        if k < 6:
            return self.plain_simple()
        if k < 8:
            return {"k": "with", "type": self.pick(["actor", "object", "performer"]), "val": self.ctx_target(),
                    "stmt": self.assignment() if self.b(1, 4) else self.op(ctx_ok=False)}
        return self.msgswitch()

    def msgswitch(self):
        n = self.i(0, 3)
        cases = [{"v": self.integer_like_nodec(), "s": self.string()} for _ in range(n)]
        default = self.string() if (self.b() or n == 0) else None
        return {"k": "msgswitch", "kind": self.pick(["talk", "monologue"]), "v": self.var(), "cases": cases, "default": default}

    def integer_like_nodec(self):
        return self.int_value() if self.b() else self.const_value()

    def if_stmt(self, depth, in_loop, in_case):
        def blk(may_end=True):
            if self.flat:
                return self.flat_block(may_end)
            return self.block(depth + 1, in_loop, in_case, 0, 3)

        def conds():
            return [self.cond() for _ in range(self.pick([1, 1, 1, 2, 2, 3]))]

        s = {"k": "if", "not": self.b(1, 3), "conds": conds(), "body": blk(), "elifs": [], "else": None}
        for _ in range(self.pick([0, 0, 0, 1, 1, 2])):
            s["elifs"].append({"not": self.b(1, 3), "conds": conds(), "body": blk()})
        if self.b(2, 5):
            s["else"] = blk(False)
        return s

    def switch_head(self):
        k = self.i(0, 9)
        if k < 4:
            return {"h": "var", "v": self.var()}
        if k < 6:
            return {"h": "scn", "v": self.var(), "i": self.i(0, 1)}
        if k == 6:
            return {"h": "random", "v": self.integer_like_nodec()}
        if k == 7:
            return {"h": "dmode", "v": self.var()}
        if k == 8:
            return {"h": "sector"}
        self.n_op += 1
        name = self.pick(["ProcessSpecial", "message_Menu", "message_SwitchMenu", "message_SwitchMenu2", f"op_{self.n_op}", "main_EnterAdventure",
                          "main_EnterRescueUser", "main_EnterTraining", "main_EnterTraining2"])
        args = [{"t": "int", "v": 300000 + self.n_op}] + [self.cond_arg() for _ in range(self.i(0, 2))]
        return {"h": "op", "op": {"k": "op", "name": name, "args": args, "ctx": None}}

    def case_head(self):
        k = self.i(0, 9)
        if k < 4:
            return {"ch": "val", "v": self.integer_like_nodec()}
        if k < 8:
            return {"ch": "op", "op": self.pick(COND_OPS), "v": self.integer_like_nodec(), "value_of": self.b(1, 3)}
        if k == 8:
            return {"ch": "menu", "s": self.string()}
        return {"ch": "menu2", "v": self.integer_like_nodec()}

    def switch_stmt(self, depth, in_loop, in_case):
        n = self.i(0, 4)
        cases = []
        default_at = self.i(0, n) if self.b(1, 2) else -1
        if self.b(1, 6):
            default_at = 0  # anchor shape: default first
        total = n + (1 if default_at >= 0 else 0)
        for j in range(total):
            is_default = default_at >= 0 and j == min(default_at, total - 1)
            last = j == total - 1
            if self.flat:
                body = self.flat_block(may_end=default_at < 0)  # (a default may be grouped with any case)
                if not last and not body and self.b():
                    pass  # grouped case
                else:
                    body = body + [{"k": "ctl", "v": "break"}]
            else:
                if (not last and self.b(1, 4)) or (last and self.may_be_rejected and self.b(1, 40)):
                    body = []
                elif self.b(1, 6):
                    body = [{"k": "ctl", "v": "break"}]  # anchor shape: case with only break
                else:
                    body = self.block(depth + 1, in_loop, True, 1, 3)
                    if not body:
                        body = [self.op()]
                    if self.b(2, 3) and body[-1]["k"] not in ("ctl", "jump"):
                        body.append({"k": "ctl", "v": "break"})
            c = {"default": is_default, "head": None if is_default else self.case_head(), "body": body}
            cases.append(c)
        head = self.switch_head()
        if head["h"] == "dmode":
            # implicit precondition: dungeon-mode values are 0..3 or one of the configured constants
            for c in cases:
                if c["head"] and c["head"]["ch"] == "val":
                    c["head"]["v"] = self.pick([{"t": "int", "v": self.i(0, 3)}, {"t": "const", "v": self.pick(T.DUNGEON_MODE_CONSTANTS)}])
        if cases and not cases[-1]["body"] and not (self.may_be_rejected and self.b(1, 2)):
            # (a switch that ends in an empty case / default is rejected by the compiler: only checks that count
            # rejections instead of failing on them ask for it - if it is ever accepted, it has to mean "nothing")
            cases[-1]["body"] = [self.op()]
        return {"k": "switch", "head": head, "cases": cases}

    def stmt(self, depth, in_loop, in_case):
        self.take()
        if self.flat:
            k = self.i(0, 9)
            if k < 5 or depth >= 1:
                return self.plain_stmt()
            if k < 8:
                return self.if_stmt(depth, False, False)
            return self.switch_stmt(depth, False, False)
        deep = depth >= self.max_depth or self.budget <= 0
        if self.macro_names and self.b(1, 6):
            return self.macro_call()
        k = self.i(0, 29)
        if k < 9 or (deep and k < 21):
            return self.plain_simple()
        if k < 11:
            return self.plain_stmt()
        if k < 15:
            return self.if_stmt(depth, in_loop, in_case)
        if k < 18:
            return self.switch_stmt(depth, in_loop, in_case)
        if k == 18:
            return {"k": "forever", "body": self.loop_body(depth)}
        if k == 19:
            return {"k": "while", "not": self.b(), "cond": self.loop_cond(), "body": self.loop_body(depth)}
        if k == 20:
            return {"k": "for", "init": self.for_slot(), "cond": self.loop_cond(), "inc": self.for_slot(),
                    "body": self.loop_body(depth)}
        if k < 24:
            c = self.lone_control(in_loop, in_case)
            if c is not None and not (c["k"] == "ctl" and c["v"] == "return" and self.b()):
                return self.maybe_with(c)
            return self.plain_simple()
        if k < 26 and self.use_labels and self.label_pool:
            lab = self.pick(self.label_pool)
            self.labels_used.add(lab)
            return self.maybe_with({"k": self.pick(["jump", "jump", "call"]), "label": lab})
        if k < 28 and self.use_labels:
            undefined = [lab for lab in self.label_pool if lab not in self.labels_defined]
            if undefined:
                lab = undefined[0]
                self.labels_defined.add(lab)
                return {"k": "label", "name": lab}
            return self.plain_simple()
        if k == 28:
            return self.maybe_with({"k": "ctl", "v": self.pick(["return", "end", "hold"])})
        if self.macro_names:
            return self.macro_call()
        return self.plain_simple()

    def loop_body(self, depth):
        body = self.block(depth + 1, True, False, 0, 3)
        if self.macro_names and self.b(1, 4):
            # anchor shape: the loop body ends in a macro call (what follows the expansion is the loop's own check / increment)
            body.append(self.macro_call())
        # every loop body starts with an op: no op-free cycle through the loop
        return [self.op()] + body

    def loop_cond(self):
        """loop conditions are emitted out of source order (behind the body): the operation form is weighted up there"""
        if self.b(1, 4):
            while True:
                c = self.cond()
                if c["c"] == "opn":
                    return c
        return self.cond()

    def macro_call(self, prefer=None):
        cands = [m for m in (prefer or ()) if m in self.macro_names]
        name = self.pick(cands) if cands and self.b() else self.pick(self.macro_names)
        return {"k": "mcall", "name": name, "args": [self.arg() for _ in range(self.macro_arity[name])]}

    # -- routines
    def routine_body(self):
        if self.flat:
            body = []
            for _ in range(self.i(0, 6)):
                if self.budget <= 0:
                    break
                body.append(self.stmt(0, False, False))
            body.append({"k": "ctl", "v": self.pick(["return", "end", "hold", "end"])})
            return body
        body = []
        for _ in range(self.i(0, 7)):
            if self.budget <= 0:
                break
            body.append(self.stmt(0, False, False))
        k = self.i(0, 5)
        if k < 3:
            body.append({"k": "ctl", "v": self.pick(["return", "end", "hold"])})
        elif k == 3:
            body.append(self.op())
        elif self.b(1, 2):
            # anchor shape: the routine ends in compound statements that end in compound statements (their end
            # labels pile up at the end of the routine), no terminator
            self.side_boost = True
            body.append(self.tail_nest(0))
            self.side_boost = False
        if not body:
            body.append(self.op())
        return body

    def tail_nest(self, depth):
        k = self.i(0, 5)
        if k < 3:
            s = self.switch_stmt(depth, False, False)
            if not s["cases"]:
                s["cases"] = [{"default": True, "head": None, "body": [self.op()]}]
            if self.b(2, 3) and not any(c["default"] for c in s["cases"]):
                s["cases"].append({"default": True, "head": None, "body": [self.op()]})
            last = s["cases"][-1]["body"]
        elif k < 5:
            s = self.if_stmt(depth, False, False)
            if s["else"] is None and self.b():
                s["else"] = [self.op()]
            last = s["else"] if s["else"] is not None else (s["elifs"][-1]["body"] if s["elifs"] else s["body"])
        else:
            s = {"k": "forever", "body": self.loop_body(depth)} if self.b() else {"k": "while", "not": self.b(), "cond": self.cond(), "body": self.loop_body(depth)}
            last = s["body"]
        if depth < 2 and self.b(2, 3):
            while last and last[-1]["k"] in ("ctl", "jump"):
                last.pop()
            last.append(self.tail_nest(depth + 1))
        return s

    def routines(self):
        coro = self.b(1, 6)
        n = self.i(1, 4)
        per = max(6, self.budget // n)
        routines = []
        if self.use_labels:
            self.label_pool = [f"l{j}" for j in range(self.pick([0, 0, 1, 2, 3]))]
        for rid in range(n):
            save = self.budget
            self.budget = min(self.budget, per)
            if coro:
                r = {"kind": "coro", "id": rid, "name": f"CORO_{rid}" if self.b() else self.pick(["EVENT_A", "coro_b", "X"]) + str(rid),
                     "target": None, "alias": False}
            else:
                r = {"kind": "def", "id": rid, "name": None, "target": None, "alias": False}
                if self.b(1, 3):
                    r["target"] = {"type": self.pick(["actor", "object", "performer"]), "val": self.ctx_target()}
            if rid > 0 and self.b(1, 8):
                r["alias"] = True
                r["body"] = []
            else:
                self.cur_routine = rid
                r["body"] = self.routine_body()
                self.cur_routine = None
            used = min(save, per) - self.budget
            self.budget = save - used
            routines.append(r)
        # define the labels that were referenced but not yet placed
        for lab in self.label_pool:
            if lab not in self.labels_defined and lab in self.labels_used:
                tgt = [r for r in routines if not r["alias"]]
                r = self.pick(tgt)
                at = self.i(0, len(r["body"]))
                r["body"][at:at] = [{"k": "label", "name": lab}, self.op()]
                self.labels_defined.add(lab)
        # side entries: the jump to each comes from ANOTHER routine where there is one (plain, or under a condition)
        for lab, rid in self.side_entries:
            others = [r for r in routines if not r["alias"] and r["id"] != rid] or [r for r in routines if not r["alias"]]
            r = self.pick(others)
            j = {"k": self.pick(["jump", "jump", "jump", "call"]), "label": lab}
            if self.b():
                j = {"k": "if", "not": False, "conds": [self.cond()], "body": [j], "elifs": [], "else": None}
            at = self.i(0, len(r["body"]))
            r["body"][at:at] = [j]
        return routines


@st.composite
def programs(draw, flat=False, max_stmts=40, pos_marks=True, labels=True, with_control=False, may_be_rejected=False):
    g = G(draw, flat=flat, max_stmts=max_stmts, pos_marks=pos_marks, labels=labels, with_control=with_control, may_be_rejected=may_be_rejected)
    return {"imports": [], "macros": [], "routines": g.routines()}


# --------------------------------------------------------------------------------------
# static classification helpers (used by the checks' non-triviality rules and histograms)
# --------------------------------------------------------------------------------------
def walk(stmts, fn, depth=0):
    for s in stmts:
        fn(s, depth)
        k = s["k"]
        if k == "if":
            walk(s["body"], fn, depth + 1)
            for e in s.get("elifs", []):
                walk(e["body"], fn, depth + 1)
            if s.get("else") is not None:
                walk(s["else"], fn, depth + 1)
        elif k == "switch":
            for c in s["cases"]:
                walk(c["body"], fn, depth + 1)
        elif k in ("forever", "while", "for"):
            walk(s["body"], fn, depth + 1)
        elif k == "with":
            fn(s["stmt"], depth + 1)


def classify(program) -> set[str]:
    out: set[str] = set()

    def fn(s, depth):
        k = s["k"]
        out.add(k if k != "ctl" else "ctl_" + s["v"])
        if depth >= 2:
            out.add("depth>=2")
        if k == "if":
            if s.get("not"):
                out.add("if_not")
            if len(s["conds"]) > 1:
                out.add("if_or")
            if s.get("elifs"):
                out.add("elseif")
            if s.get("else") is not None:
                out.add("else")
            for b in [s["body"]] + [e["body"] for e in s.get("elifs", [])] + ([s["else"]] if s.get("else") is not None else []):
                if not b:
                    out.add("empty_block")
                if len(b) == 1 and b[0]["k"] in ("jump",):
                    out.add("lone_jump_block")
                    if s.get("not"):
                        out.add("neg_if_lone_jump")
        if k == "switch":
            cs = s["cases"]
            if any(c.get("default") for c in cs):
                out.add("default")
                if cs and cs[0].get("default") and len(cs) > 1:
                    out.add("default_first")
            if any(not c["body"] for c in cs):
                out.add("grouped_case")
            if any(len(c["body"]) == 1 and c["body"][0] == {"k": "ctl", "v": "break"} for c in cs):
                out.add("case_only_break")
            if any(c["body"] and c["body"][-1].get("v") != "break" for c in cs[:-1]):
                out.add("fallthrough")
        if k == "op" and s.get("ctx"):
            out.add("inline_ctx")
        if k == "label" and s["name"].startswith("se_"):
            out.add("side_entry_into_dead_code")
        if k == "with" and s["stmt"]["k"] in ("ctl", "jump", "call"):
            out.add("with_around_control_stmt")

    for r in program["routines"]:
        if r.get("alias"):
            out.add("alias")
        if r["kind"] == "coro":
            out.add("coro")
        if r.get("target"):
            out.add("targeted")
        walk(r["body"], fn)
        if r["body"] and not (r["body"][-1]["k"] == "ctl" and r["body"][-1]["v"] in ("return", "end", "hold")):
            out.add("no_final_terminator")
        if r["body"] and r["body"][-1]["k"] in ("forever", "while", "for"):
            out.add("loop_last")
        if r["body"] and r["body"][-1]["k"] == "label":
            out.add("label_last")
    for m in program.get("macros", []):
        walk(m["body"], fn)
    return out


# --------------------------------------------------------------------------------------
# AST-level shrinking (greedy delete-one pass used after hypothesis' own shrinker)
# --------------------------------------------------------------------------------------
def _stmt_lists(prog):
    """Yields every list of statements in the program (mutable references)."""
    out = []

    def rec(stmts):
        out.append(stmts)
        for s in stmts:
            k = s["k"]
            if k == "if":
                rec(s["body"])
                for e in s.get("elifs", []):
                    rec(e["body"])
                if s.get("else") is not None:
                    rec(s["else"])
            elif k == "switch":
                for c in s["cases"]:
                    rec(c["body"])
            elif k in ("forever", "while", "for"):
                rec(s["body"])

    for r in prog["routines"]:
        rec(r["body"])
    for m in prog.get("macros", []):
        rec(m["body"])
    return out


def shrink_candidates(prog):
    import copy

    # drop a routine (from the end, ids stay dense)
    if len(prog["routines"]) > 1:
        p = copy.deepcopy(prog)
        p["routines"].pop()
        yield p
    if prog.get("macros"):
        for i in range(len(prog["macros"])):
            p = copy.deepcopy(prog)
            del p["macros"][i]
            yield p
    n_lists = len(_stmt_lists(prog))
    for li in range(n_lists):
        n = len(_stmt_lists(prog)[li])
        for si in range(n):
            p = copy.deepcopy(prog)
            lst = _stmt_lists(p)[li]
            s = lst[si]
            del lst[si]
            yield p
            # replace a block statement by its body
            if s["k"] in ("if", "forever", "while", "for") and s.get("body"):
                p = copy.deepcopy(prog)
                lst = _stmt_lists(p)[li]
                lst[si : si + 1] = copy.deepcopy(s["body"])
                yield p
            if s["k"] == "if":
                if s.get("elifs"):
                    for j in range(len(s["elifs"])):
                        p = copy.deepcopy(prog)
                        del _stmt_lists(p)[li][si]["elifs"][j]
                        yield p
                if s.get("else") is not None:
                    p = copy.deepcopy(prog)
                    _stmt_lists(p)[li][si]["else"] = None
                    yield p
                if len(s["conds"]) > 1:
                    for j in range(len(s["conds"])):
                        p = copy.deepcopy(prog)
                        del _stmt_lists(p)[li][si]["conds"][j]
                        yield p
            if s["k"] == "switch":
                for j in range(len(s["cases"])):
                    p = copy.deepcopy(prog)
                    del _stmt_lists(p)[li][si]["cases"][j]
                    yield p
            if s["k"] == "op" and s.get("args"):
                p = copy.deepcopy(prog)
                _stmt_lists(p)[li][si]["args"] = []
                yield p
            if s["k"] == "op" and s.get("ctx"):
                p = copy.deepcopy(prog)
                _stmt_lists(p)[li][si]["ctx"] = None
                yield p


def is_flat(prog) -> bool:
    """Membership in the class C13 quantifies over."""
    plain = ("op", "assign", "with", "msgswitch")

    def plain_block(stmts):
        return all(s["k"] in plain for s in stmts)

    for r in prog["routines"]:
        if r.get("alias"):
            continue  # shares the (flat) body of the routine before it
        body = r["body"]
        if not body or not (body[-1]["k"] == "ctl" and body[-1]["v"] in ("return", "end", "hold")):
            return False
        for s in body[:-1]:
            k = s["k"]
            if k in plain:
                continue
            if k == "if":
                blocks = [s["body"]] + [e["body"] for e in s.get("elifs", [])] + ([s["else"]] if s.get("else") is not None else [])
                if not all(plain_block(b) for b in blocks):
                    return False
            elif k == "switch":
                cases = s["cases"]
                for i, c in enumerate(cases):
                    b = c["body"]
                    if not b:
                        if i == len(cases) - 1:
                            return False
                        continue
                    if not (b[-1]["k"] == "ctl" and b[-1]["v"] == "break") or not plain_block(b[:-1]):
                        return False
            else:
                return False
    return True
