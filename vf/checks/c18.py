"""C18 - the position-mark listing delimits every Position literal exactly (DESIGN.md 4, C18)."""
from __future__ import annotations

from hypothesis import strategies as st

from vf import canon, gen_macro, gen_prog, model, parse, render
from vf.core import Failure, call_guard
from vf.cut import compile_text

ID = "C18"
LEVEL = "exploration"
RULE = (
    "gen_prog programs (with and without macros in the same file) rich in Position<...> literals: in routine bodies, "
    "macro bodies, macro-call arguments, switch operation headers and operation conditions, several per line, spread "
    "over several lines by the drawn layout (separators and comments between the tokens of a literal), both quote "
    "styles, integer / .5 / .50 / .0 number spellings, unique names (identifier-like, or with blanks, quote characters, an escaped line break, comment openers, non-ASCII letters). Oracle: PositionMarkVisitor().visit(tree) equals "
    "the renderer's record: count, source order, zero-based line/column of the word Position, line/column of the "
    "closing '>', name, tiles, half-tile flags; the values equal the compiled parameter of that name. Metamorphic: "
    "replace exactly the reported span of one drawn literal by str() of an edited mark and recompile: only parameters "
    "with that mark's name change, to the edited value; all other ops and parameters are unchanged. Non-trivial = >= 2 "
    "literals on one line or >= 1 literal spanning lines; distinct by content hash."
    ' One program in six gets its extra marks in the shortest statements there are (one-letter names, the empty mark name, one-digit coordinates); one layout in four is minified.'
)
ASSUMPTIONS = ["mark names are unique per program, so 'the parameter produced for that literal' is found by name"]
CASES = {"quick": 4800, "thorough": 40000}

_tape = st.lists(st.integers(0, 10000), min_size=1, max_size=50)


@st.composite
def marked_programs(draw):
    macros = draw(st.booleans())
    if macros:
        p = draw(gen_macro.macro_programs(single_file=True, max_stmts=25))
    else:
        p = draw(gen_prog.programs(max_stmts=25))
    # sprinkle extra marks: append a marked operation to random statement lists
    n = draw(st.integers(0, 5))
    lists = [lst for lst in gen_prog._stmt_lists(p) if not any(lst is r["body"] and r.get("alias") for r in p["routines"])]
    # sizes: one program in six gets its extra marks in the SHORTEST statements there are - one-letter operation names,
    # the empty name and one-letter names, one-digit coordinates (with a minified layout, statements of 20 characters)
    tiny = draw(st.integers(0, 5)) == 0
    n_tiny = 0
    for k in range(n):
        lst = lists[draw(st.integers(0, len(lists) - 1))]
        args = []
        if tiny:
            for j in range(draw(st.sampled_from([1, 1, 2]))):
                args.append({"t": "pos", "name": "" if n_tiny == 0 else "abcdefghijklmnopq"[n_tiny - 1], "x": draw(st.integers(0, 9)), "xh": False, "y": draw(st.integers(0, 9)), "yh": False})
                n_tiny += 1
            lst.insert(draw(st.integers(0, len(lst))), {"k": "op", "name": "fghij"[k], "args": args, "ctx": None})
            continue
        for j in range(draw(st.integers(1, 3))):
            # names are string literals: blanks, both quote characters, a line break (spelled as an escape), comment
            # openers and non-ASCII letters are legitimate in them
            deco = draw(st.sampled_from(["", "", "", " gate", ' the "old" one', " it's", " \u00e9\u65e5", "\nsecond line", " a//b /*c", " {x} <y>, 1.5", " Cafe\u0301", " \u1100\u1161\u11a8", " a\u0308\u0323"]))
            args.append({"t": "pos", "name": f"x{k}_{j}" + deco, "x": draw(st.integers(-5, 90)), "xh": draw(st.booleans()),
                         "y": draw(st.integers(-5, 90)), "yh": draw(st.booleans())})
            if draw(st.booleans()):
                args.append({"t": "int", "v": draw(st.integers(0, 9))})
        lst.insert(draw(st.integers(0, len(lst))), {"k": "op", "name": f"mk_{k}", "args": args, "ctx": None})
    return p


def strategy(tier):
    # (the tapes [0] are the plainest spellings / the minified layout)
    return st.fixed_dictionaries({"p": marked_programs(), "spell": st.one_of(_tape, _tape, _tape, st.just([0])), "layout": st.one_of(st.none(), _tape, _tape, st.just([0])),
                                  "pick": st.integers(0, 1000), "dx": st.integers(-3, 3), "dy": st.integers(-3, 3), "flip": st.booleans()})


def collect_marks(p):
    """all pos values of the AST keyed by their render path, in traversal order"""
    out = []

    def args(lst, path):
        for i, a in enumerate(lst):
            if a["t"] == "pos":
                out.append((path + (i,), a))

    def rec(stmts, prefix):
        for i, s in enumerate(stmts):
            one(s, prefix + (i,))

    def one(s, path):
        k = s["k"]
        if k == "op":
            args(s["args"], path)
        elif k == "mcall":
            args(s["args"], path)
        elif k == "with":
            one(s["stmt"], path + ("w",))
        elif k == "if":
            for cl, cp in [(s, path)] + [(e, path + ("e", j)) for j, e in enumerate(s.get("elifs", []))]:
                for j, c in enumerate(cl["conds"]):
                    if c["c"] == "opn":
                        args(c["op"]["args"], cp + ("c", j))
            rec(s["body"], path + ("b",))
            for j, e in enumerate(s.get("elifs", [])):
                rec(e["body"], path + ("e", j, "b"))
            if s.get("else") is not None:
                rec(s["else"], path + ("x",))
        elif k == "switch":
            if s["head"]["h"] == "op":
                args(s["head"]["op"]["args"], path + ("h",))
            for j, c in enumerate(s["cases"]):
                rec(c["body"], path + ("k", j))
        elif k in ("forever", "while", "for"):
            if k != "forever" and s["cond"]["c"] == "opn":
                args(s["cond"]["op"]["args"], path + ("c", 0))
            if k == "for":
                one(s["init"], path + ("i",))
                one(s["inc"], path + ("n",))
            rec(s["body"], path + ("b",))

    for i, m in enumerate(p.get("macros", [])):
        rec(m["body"], ("m", i))
    for i, r in enumerate(p["routines"]):
        rec(r["body"], ("r", i))
    return out


def evaluate(case, stt):
    from explorerscript.ssb_converting.compiler.compiler_visitor.position_mark_visitor import PositionMarkVisitor
    from explorerscript.ssb_converting.ssb_data_types import SsbOpParamPositionMarker

    fails = []
    p = case["p"]
    r = render.render(p, render.Tape(case["spell"]), render.Tape(case["layout"]) if case["layout"] else None)
    text = r.text
    marks = collect_marks(p)
    expected = []
    for path, v in marks:
        s = r.marks.get(("pos", path))
        e = r.ends.get(("pos", path))
        if s is None or e is None:
            raise AssertionError(f"renderer has no record for mark at {path}")
        expected.append((s[0], s[1], e[0], e[1], v["name"], 2 if v["xh"] else 0, 2 if v["yh"] else 0, v["x"], v["y"]))
    expected.sort(key=lambda t: (t[0], t[1]))
    tree, exc = call_guard(lambda: parse.parse_tree(text))
    if exc is not None:
        stt.count("unparsable_render")
        raise AssertionError("generated source does not parse: " + exc[1] + "\n" + text)
    visitor = PositionMarkVisitor()  # kept for the listing after the edit (an editing session keeps its visitor)
    got, exc = call_guard(lambda: visitor.visit(tree))
    if exc is not None:
        fails.append(Failure("visitor:" + exc[0], f"{exc[1]}\n{text}"))
        return fails
    got_t = [(m.line_number, m.column_number, m.end_line_number, m.end_column_number, m.name, 2 if m.x_offset > 1 else 0, 2 if m.y_offset > 1 else 0, m.x_relative, m.y_relative) for m in got]
    lines_with = {}
    for t in expected:
        lines_with[t[0]] = lines_with.get(t[0], 0) + 1
    multi_line = any(t[0] != t[2] for t in expected)
    if any(n >= 2 for n in lines_with.values()) or multi_line:
        stt.mark_nontrivial(case)
    if multi_line:
        stt.count("literal_spans_lines")
    if any(n >= 2 for n in lines_with.values()):
        stt.count("two_literals_on_a_line")
    stt.add("literals", len(expected))
    if len(got_t) != len(expected):
        fails.append(Failure("count", f"{len(expected)} literals in the source, listing has {len(got_t)}\n{text}"))
    elif got_t != expected:
        for a, b in zip(expected, got_t):
            if a != b:
                what = "order" if sorted(got_t) == sorted(expected) else ("start" if a[:2] != b[:2] else ("end" if a[2:4] != b[2:4] else "value"))
                fails.append(Failure("listing:" + what, f"expected {a}, listing has {b}\n{text}"))
                break
    if fails or not expected:
        return fails
    # values equal the compiled parameters
    comp, exc = call_guard(lambda: compile_text(text))
    if exc is not None:
        stt.count("rejected_by_compiler")
        return fails
    by_name = {}
    for rt in comp.routine_ops:
        for op in rt:
            for prm in op.params:
                if isinstance(prm, SsbOpParamPositionMarker):
                    by_name.setdefault(prm.name, []).append(prm)
    for t in expected:
        for prm in by_name.get(t[4], []):
            if (prm.x_relative, prm.y_relative, prm.x_offset > 1, prm.y_offset > 1) != (t[7], t[8], t[5] > 1, t[6] > 1):
                fails.append(Failure("value_vs_compiled", f"listing says {t}, compiled parameter is {prm!r}\n{text}"))
    # metamorphic edit of one literal
    t = got_t[case["pick"] % len(got_t)]
    nx, ny = t[7] + case["dx"], t[8] + case["dy"]
    nxo = (0 if t[5] else 2) if case["flip"] else t[5]
    edited = SsbOpParamPositionMarker(t[4], nxo, t[6], nx, ny)
    lines = text.split("\n")
    before = "\n".join(lines[: t[0]]) + ("\n" if t[0] else "") + lines[t[0]][: t[1]]
    after = lines[t[2]][t[3] + 1:] + ("\n" + "\n".join(lines[t[2] + 1:]) if t[2] + 1 < len(lines) else "")
    text2 = before + str(edited) + after
    comp2, exc = call_guard(lambda: compile_text(text2))
    if exc is not None:
        fails.append(Failure("edit_breaks_source", f"replacing span {t[:4]} by {edited} gives a source that is rejected: {exc[1]}\n--- before:\n{text}\n--- after:\n{text2}"))
        return fails
    # the listing of the edited text, made with the SAME visitor object, is the listing a new visitor gives
    tree2, exc = call_guard(lambda: parse.parse_tree(text2))
    if exc is None:
        def as_tuples(ms):
            return [(m.line_number, m.column_number, m.end_line_number, m.end_column_number, m.name, m.x_offset, m.y_offset, m.x_relative, m.y_relative) for m in ms]

        again, exc_a = call_guard(lambda: as_tuples(visitor.visit(tree2)))
        fresh, exc_f = call_guard(lambda: as_tuples(PositionMarkVisitor().visit(tree2)))
        if exc_a is not None or exc_f is not None:
            fails.append(Failure("second_listing:" + (exc_a or exc_f)[0], (exc_a or exc_f)[1]))
        elif again != fresh:
            fails.append(Failure("second_listing_with_the_same_visitor", f"{len(again)} entries, a new visitor lists {len(fresh)}: {again[:3]} vs {fresh[:3]}\n--- after:\n{text2}"))
    a, b = canon.canon_ops(comp.routine_ops), canon.canon_ops(comp2.routine_ops)
    want = ("p", t[4], nx, ny, nxo > 1, t[6] > 1)
    old = ("p", t[4], t[7], t[8], t[5] > 1, t[6] > 1)

    def subst(ops):
        return [[(n, [want if x == old else x for x in ps]) for n, ps in row] for row in ops]

    d = canon.first_diff(subst(a), b, "ops")
    if d:
        fails.append(Failure("edit_changes_other_things", f"{d}\n--- before:\n{text}\n--- after:\n{text2}"))
    if len(stt.samples) < 2 and multi_line and not fails:
        stt.sample({"source": text[:1000], "listing": [list(x) for x in got_t[:6]], "edited": str(edited)})
    return fails


def shrink_candidates(case):
    p = case["p"]
    for q in gen_prog.shrink_candidates(p):
        names = {m["name"] for m in q.get("macros", [])}
        ok = True

        def fn(s, d):
            nonlocal ok
            if s["k"] == "mcall" and s["name"] not in names:
                ok = False

        for m in q.get("macros", []):
            gen_prog.walk(m["body"], fn)
        for r in q["routines"]:
            gen_prog.walk(r["body"], fn)
        if ok:
            q = dict(q)
            q.pop("order", None)
            yield dict(case, p=q)
