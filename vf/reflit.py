"""Reference literal reader, written from the "Data Types" section of docs/language_spec.rst
(independent of explorerscript.ssb_converting.compiler.utils / util.exps_int)."""
from __future__ import annotations


def read_int(txt: str) -> int:
    s = txt
    neg = s.startswith("-")
    if neg:
        s = s[1:]
    low = s.lower()
    if low.startswith("0x"):
        v = int(s[2:], 16)
    elif low.startswith("0o"):
        v = int(s[2:], 8)
    elif low.startswith("0b"):
        v = int(s[2:], 2)
    else:
        if not s.isdigit():
            raise ValueError(f"not an integer literal: {txt!r}")
        v = int(s.lstrip("0") or "0", 10)
    return -v if neg else v


def read_single_line(lit: str) -> str:
    """'...' or "..." ; documented: \\n inserts a newline; the unit tests pin \\' and \\" ;
    every other backslash sequence is kept as written."""
    body = lit[1:-1]
    out = []
    i = 0
    while i < len(body):
        c = body[i]
        if c == "\\" and i + 1 < len(body) and body[i + 1] in "n'\"":
            nxt = body[i + 1]
            out.append("\n" if nxt == "n" else nxt)
            i += 2
        else:
            out.append(c)
            i += 1
    return "".join(out)


def read_multi_line(lit: str) -> str:
    """Triple quoted literal, dedent rules of the specification:
    - indentation of the first line (after the opening quotes) is preserved;
    - the last line is fully removed if it consists only of whitespace;
    - all other lines (and the last one if it has other characters) are dedented by the least
      indentation among them;
    - if the first or last line is empty after that, it is removed.  \\n stays as written."""
    body = lit[3:-3]
    lines = body.split("\n")
    first = lines[0]
    rest = lines[1:]
    if not rest:
        return first
    last = rest[-1]
    middle = rest[:-1]
    if last.strip(" ") == "":
        dedent_lines = middle
        last_kept = False
    else:
        dedent_lines = middle + [last]
        last_kept = True
    if dedent_lines:
        least = min(len(ln) - len(ln.lstrip(" ")) for ln in dedent_lines)
    else:
        least = 0
    res = [ln[least:] for ln in dedent_lines]
    del last_kept
    # first line removed if empty; a whitespace-only last line was already removed
    if first == "":
        return "\n".join(res)
    if not res:
        return first
    return first + "\n" + "\n".join(res)


def read_string_literal(lit: str) -> str:
    if len(lit) >= 6 and (lit.startswith("'''") or lit.startswith('"""')):
        return read_multi_line(lit)
    return read_single_line(lit)
