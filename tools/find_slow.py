import os, sys, json, time, signal; sys.path.insert(0, os.path.dirname(os.path.dirname(os.path.abspath(__file__)))); sys.path.insert(0, "/repo")
os.dup2(os.open(os.devnull, os.O_WRONLY), 2)
import logging; logging.disable(logging.CRITICAL)
from hypothesis import given, settings, seed, HealthCheck, Phase
from vf import gen_ssb, decomp, core
class TO(BaseException): pass
def h(*a): raise TO()
signal.signal(signal.SIGALRM, h)
N = int(sys.argv[1]); SEED = int(sys.argv[2])
@seed(SEED)
@settings(max_examples=N, database=None, deadline=None, suppress_health_check=list(HealthCheck), phases=[Phase.generate])
@given(decomp.input_strategy(w1=1, w2=2, w3=0) if os.environ.get("S12") else gen_ssb.free_graphs())
def t(case):
    case, _ = decomp.materialise(case, type("S", (), {"count": lambda *a: None})())
    if case is None: return
    if not gen_ssb.well_formed(case)[0]: return
    t0 = time.time()
    signal.setitimer(signal.ITIMER_REAL, 10, 1)
    try:
        r = decomp.run_decompiler(case)
        st = r[0]
    except TO:
        st = "WALL"
    finally:
        signal.setitimer(signal.ITIMER_REAL, 0)
    dt = time.time() - t0
    if dt > 3 or st in ("WALL", "budget"):
        print(st, round(dt, 1)); print(gen_ssb.describe(case)); print(json.dumps(case)); sys.stdout.flush()
t()
print("done")
