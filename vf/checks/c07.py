"""C07 - SsbScript is a lossless spelling of SSB ops (DESIGN.md 4, C07)."""
from __future__ import annotations

from hypothesis import strategies as st

from vf import canon, gen_prog, gen_ssb, model, render, spec_tables as T
from vf.core import Failure, call_guard
from vf.cut import compile_ssbs, compile_text, decompile_ssbs

ID = "C07"
LEVEL = "exploration"
RULE = (
    "routine sets from gen_ssb stratum 4 (arbitrary opcode names incl. names with special meaning, unreachable ops, "
    "empty/alias routines, every parameter kind, jump-carrying ops with their documented arity and targets anywhere in "
    "the set), stratum 3 (free flow graphs) and stratum 1 (compiled generated programs), with random offset gaps; "
    "oracle: SsbScriptSsbCompiler.compile(SsbScriptSsbDecompiler(x).convert()[0]) equals x up to renumbering: routine "
    "count, kinds, targets (number and name), coroutine names, op sequence, parameter values and for each jump "
    "parameter the index of the denoted op. Non-trivial = >= 1 jump op; distinct by content hash."
)
ASSUMPTIONS = [
    "strings stay within what has an exact literal (known finding F-C04-3 is C04's); control characters are not generated",
    "opcode / constant / coroutine names are identifiers and never reserved words of the SsbScript grammar",
    "named targets are identifiers or $-variables; numeric targets are >= 0",
]
CASES = {"quick": 6400, "thorough": 150000}


def strategy(tier):
    s1 = st.fixed_dictionaries({"stratum": st.just(1), "prog": gen_prog.programs(max_stmts=25), "gaps": st.lists(st.integers(0, 3), min_size=1, max_size=5)})
    from vf.core import weighted

    return weighted((2, gen_ssb.ssbscript_domain()), (1, gen_ssb.free_graphs()), (1, s1))


def materialise(case, stt):
    if case.get("stratum") == 1 and "prog" in case:
        text = render.render(case["prog"]).text
        comp, exc = call_guard(lambda: compile_text(text))
        if exc is not None:
            return None
        c = gen_ssb.case_from_compiled(comp, case["gaps"])
        return c
    return case


def expected_canon(case):
    rows = []
    for r in case["routines"]:
        row = []
        for name, params, tgt in r["ops"]:
            ps = [model.norm_real_param(gen_ssb.build_param(p)) for p in params]
            if tgt is not None:
                ps.append(("J", tgt[0], tgt[1]))
            row.append((name, ps))
        rows.append(row)
    return rows


def evaluate(case, stt):
    from vf.checks.c04 import unspellable

    fails = []
    stt.count(f"stratum:{case.get('stratum')}")
    c = materialise(case, stt)
    if c is None:
        stt.count("rejected_by_compiler")
        return fails
    # known finding of C04: strings without an exact literal are not this property's business
    for r in c["routines"]:
        for op in r["ops"]:
            for p in op[1]:
                strs = [p["s"]] if isinstance(p, dict) and "s" in p else ([s for _, s in p["l"]] if isinstance(p, dict) and "l" in p else [])
                if any(unspellable(s) for s in strs):
                    stt.excluded_known += 1
                    return fails
    infos, rops, coros = gen_ssb.build(c)
    njump = sum(1 for r in c["routines"] for op in r["ops"] if op[2] is not None)
    if any(not r["ops"] for r in c["routines"]):
        stt.count("empty_routine")
    offs = gen_ssb.offsets_of(c)
    tg = {}
    for r in c["routines"]:
        for op in r["ops"]:
            if op[2] is not None:
                tg[tuple(op[2])] = tg.get(tuple(op[2]), 0) + 1
                if op[2][1] == 0:
                    stt.count("jump_to_first_op_of_routine")
    out, exc = call_guard(lambda: decompile_ssbs(infos, rops, coros))
    if exc is not None:
        fails.append(Failure("print:" + exc[0], f"{exc[1]}\n{gen_ssb.describe(c)}"))
        return fails
    text = out[0]
    comp, exc = call_guard(lambda: compile_ssbs(text))
    if exc is not None:
        fails.append(Failure("rejected:" + exc[0], f"{exc[1]}\n{gen_ssb.describe(c)}\n--- printed:\n{text}"))
        return fails
    if njump:
        stt.mark_nontrivial(c)
    got = canon.canon_ops(comp.routine_ops)
    exp = expected_canon(c)
    d = canon.first_diff(exp, got, "ops")
    if d:
        fails.append(Failure("ops_differ", f"{d}\n{gen_ssb.describe(c)}\n--- printed:\n{text}"))
    tab_exp = gen_ssb.routine_table(c)
    tab_got = model.real_routine_table(comp.routine_infos, comp.named_coroutines)
    if tab_exp != tab_got:
        fails.append(Failure("routine_table", f"expected {tab_exp} got {tab_got}\n--- printed:\n{text}"))
    if len(stt.samples) < 2 and njump >= 2:
        stt.sample({"input": gen_ssb.describe(c), "ssbscript": text[:1500]})
    return fails


def shrink_candidates(case):
    if case.get("stratum") == 1 and "prog" in case:
        for p in gen_prog.shrink_candidates(case["prog"]):
            yield dict(case, prog=p)
    else:
        yield from gen_ssb.shrink_candidates(case)
