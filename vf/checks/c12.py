"""C12 - concurrent compilation and decompilation give the sequential results (DESIGN.md 4, C12)."""
from __future__ import annotations

import json
import sys
import threading

from hypothesis import strategies as st

from vf import canon, decomp, gen_macro, gen_prog, gen_ssb, results, sched
from vf.core import Failure, weighted

ID = "C12"
LEVEL = "exploration"
RULE = (
    "2-4 jobs (compile of a generated program / decompile of a generated routine set, different or equal inputs) run "
    "in worker threads under vf/sched.py: a sys.settrace hook makes every line event in graph_utils.py, "
    "graph_minimizer.py, ssb_decompiler.py, ssb_compiler.py, label_jump_to_resolver.py, ssb_special_ops.py, "
    "explorerscript_reader.py, macro.py, compiler/utils.py and the antlr4 ATN simulator / DFA / prediction-context "
    "modules (every opcode event inside graph_utils.py) a yield point; all threads but one are parked; a drawn list of "
    "(thread choice, run length, mode) entries decides who runs next - the schedule is data, replays exactly and shrinks; mode 1 counts only yield points inside code that touches state shared between calls (memo table, ANTLR caches), mode 2 additionally keeps the thread parked there until another job has finished (a long preemption in the middle of a shared-state access). A "
    "second mode lets the same jobs run freely with sys.setswitchinterval(1e-6); a third ('cold') runs the scheduled jobs in a fresh interpreter BEFORE anything was parsed there, so that the shared ANTLR DFA caches are built under thread switches, and computes the sequential results afterwards. A fourth kind of case ('lockstep') runs the same input in 2-4 threads switched round robin every 1-6 yield points (first-use races). Yield points are all lines of the explorerscript package except the generated parser. Oracle: every job's result (ops, "
    "offsets, tables, text, serialized source maps) equals its result when run alone beforehand; no job raises. "
    "Non-trivial = the schedule switched threads >= 20 times while >= 2 jobs were inside traced code; distinct by hash."
    " Further job kinds: scripts of 200-420 routines, generated multi-file workspaces compiled from disk. Further case families: 'inside' (one job parked inside shared-state code for the whole run of another) and 'shared libraries' (two main files of one project that import the same chain of 2-4 library files; pause / drawn schedule / free-running)."
)
ASSUMPTIONS = [
    "interleavings are at line (partly opcode) granularity under the GIL; races inside C extensions (igraph) are not explored",
    "a thread is never parked while it holds graph_utils.cache_lock (that would deadlock the harness, not the code)",
    "free-running mode: failures are reported with inputs and seed only, the schedule cannot be replayed",
]
CASES = {"quick": 320, "thorough": 10000}


def extra(ctx):
    """scratch workspaces of this run are removed at the end"""
    import shutil

    shutil.rmtree(results.WS_ROOT, ignore_errors=True)


def job_items(small_only=False):
    prog = st.one_of(gen_prog.programs(max_stmts=12, with_control=True), gen_macro.macro_programs(single_file=True, max_stmts=15, with_control=True))
    p_item = prog.map(lambda p: {"kind": "program", "prog": p})
    s_item = decomp.input_strategy(w1=1, w2=1, w3=2, max_stmts=12).map(lambda c: {"kind": "ssb", "case": c})
    # inputs whose result depends on what the decompiler's memo table holds (built for C11): nested loops, switches with
    # empty cases, ifs with empty bodies in front of a switch
    from vf.checks import c11

    memo = c11.memo_table_inputs().flatmap(lambda items: st.sampled_from(items)) if True else None
    # workspaces: main files that import macro files (chains, diamonds, lookup paths) from disk - two threads that
    # compile the same project share every imported file
    ws_item = gen_macro.macro_programs(single_file=False, max_stmts=12).filter(lambda c: c.get("files")).map(lambda c: {"kind": "ws", "case": c})
    empty_if_switch = st.tuples(st.integers(0, 3), st.integers(1, 3), st.sampled_from(["hold", "end", "return"]), st.integers(0, 2), st.booleans()).map(_empty_if_then_switch)
    if small_only:
        return weighted((1, p_item), (3, s_item), (1, memo), (1, empty_if_switch), (1, ws_item))
    return weighted((4, p_item), (8, s_item), (2, deep_item()), (2, failing_item()), (2, memo), (2, empty_if_switch), (1, wide_item()), (3, ws_item))


def _empty_if_then_switch(t):
    """a routine whose last if has an empty body, followed by a switch with one case and a default that ends the routine"""
    npre, ncase, term, nest, only_break = t
    n = [0]

    def op():
        n[0] += 1
        return {"k": "op", "name": f"ms_{n[0]}", "args": [], "ctx": None}

    def cond(kw):
        return {"c": "neg", "not": False, "kw": kw}

    body = [op() for _ in range(npre)]
    empty_if = {"k": "if", "not": False, "conds": [cond("debug")], "body": [], "elifs": [], "else": None}
    if nest == 1:  # the empty if is the else branch of another if
        empty_if = {"k": "if", "not": False, "conds": [cond("edit")], "body": [op()], "elifs": [], "else": [empty_if]}
    elif nest == 2:  # ... or its then branch
        empty_if = {"k": "if", "not": False, "conds": [cond("edit")], "body": [empty_if], "elifs": [], "else": [op()]}
    body.append(empty_if)
    cases = [{"default": False, "head": {"ch": "val", "v": {"t": "int", "v": j}}, "body": ([] if only_break else [op()]) + [{"k": "ctl", "v": "break"}]} for j in range(ncase)]
    cases.append({"default": True, "head": None, "body": [op(), {"k": "ctl", "v": term}]})
    body.append({"k": "switch", "head": {"h": "var", "v": {"t": "const", "v": "$MS"}}, "cases": cases})
    body += [op(), {"k": "ctl", "v": "end"}]
    routines = [{"kind": "def", "id": i, "name": None, "target": None, "alias": False, "body": body} for i in range(2)]
    return {"kind": "ssb", "memo": "if_switch", "case": {"stratum": 1, "gaps": [0], "prog": {"imports": [], "macros": [], "routines": routines}}}


def failing_item():
    """a routine set on which convert() gives up inside a graph pass and takes the SsbScript fallback (a routine that
    ends in a conditional branch): the failure path of one job runs while other jobs are in the middle of theirs"""
    def mk(t):
        c, r_i, v = t
        c = dict(c, routines=[dict(r, ops=list(r["ops"])) for r in c["routines"]])
        rs = [i for i, r in enumerate(c["routines"]) if r["ops"]]
        if rs:
            i = rs[r_i % len(rs)]
            c["routines"][i]["ops"].append(["BranchBit", [{"c": f"$F_{v}"}, v % 8], [i, 0]])
        return {"kind": "ssb", "failing": True, "repeat": 2 + v % 7, "case": c}

    return st.tuples(gen_ssb.free_graphs(), st.integers(0, 9), st.integers(0, 99)).map(mk)


def deep_item():
    """a routine of 340-420 consecutive ifs: the decompiler nests them, i.e. recurses about three frames per if -
    interpreter-wide state like the recursion limit only matters for inputs of this depth"""
    def mk(n):
        body = [{"k": "if", "not": False, "conds": [{"c": "neg", "not": False, "kw": "debug"}], "body": [{"k": "op", "name": f"d_{i}", "args": [], "ctx": None}],
                 "elifs": [], "else": None} for i in range(n)] + [{"k": "ctl", "v": "end"}]
        return {"kind": "ssb", "deep": n, "case": {"stratum": 1, "gaps": [0], "prog": {"imports": [], "macros": [], "routines": [
            {"kind": "def", "id": 0, "name": None, "target": None, "alias": False, "body": body}]}}}

    return st.integers(340, 420).map(mk)


def wide_item():
    """sizes: a script of 200-420 small routines (real scripts have hundreds of coroutines) - whatever the decompiler keeps
    per routine or per graph (tables, caches with a capacity) is only stressed by inputs this wide"""
    def mk(t):
        n, step = t
        routines = []
        for i in range(n):
            body = [{"k": "op", "name": f"w_{i}", "args": [], "ctx": None}]
            if i % step == 0:
                body = [{"k": "if", "not": False, "conds": [{"c": "neg", "not": False, "kw": "debug"}], "body": [{"k": "op", "name": f"wi_{i}", "args": [], "ctx": None}],
                         "elifs": [], "else": [{"k": "op", "name": f"we_{i}", "args": [], "ctx": None}]}] + body
            routines.append({"kind": "def", "id": i, "name": None, "target": None, "alias": False, "body": body + [{"k": "ctl", "v": "return"}]})
        return {"kind": "ssb", "wide": n, "case": {"stratum": 1, "gaps": [0], "prog": {"imports": [], "macros": [], "routines": routines}}}

    return st.tuples(st.integers(200, 420), st.integers(1, 9)).map(mk)


def strategy(tier):
    sched_case = st.fixed_dictionaries({
        "mode": st.just("sched"),
        "jobs": st.lists(job_items(), min_size=2, max_size=4),
        "dup": st.booleans(),
        "schedule": st.lists(st.tuples(st.integers(0, 3), st.one_of(st.integers(1, 8), st.integers(1, 200), st.integers(1, 3000)), st.sampled_from([0, 0, 0, 0, 1, 2])).map(list), min_size=5, max_size=120),
    })
    free_case = st.fixed_dictionaries({"mode": st.just("free"), "jobs": st.lists(job_items(), min_size=2, max_size=4), "dup": st.booleans(), "schedule": st.just([])})
    cold_case = sched_case.map(lambda c: dict(c, mode="cold"))
    # lockstep: the SAME input in 2-4 threads, switched round robin every 1-6 yield points - all threads are at (nearly)
    # the same place of the same code at the same time, which is where first-use races on memo tables / lazily
    # filled class attributes live; run in a fresh interpreter (cold) or after the reference run (sched)
    lock_case = st.tuples(job_items(small_only=True), st.integers(2, 4), st.integers(1, 6), st.sampled_from(["cold", "cold", "sched"])).map(
        lambda t: {"mode": t[3], "jobs": [t[0]] * t[1], "dup": False, "schedule": [[i, t[2], 0] for i in range(t[1])], "lockstep": True, "max_switches": 60000})
    # inside: one job is parked inside shared-state code (after 1-80 yield points there) for the WHOLE run of another
    # job, which is a wide one half of the time - what the other job does to shared tables as a whole (clearing,
    # evicting, rebuilding) happens while the first is in the middle of using them
    inside_case = st.tuples(job_items(small_only=True), st.one_of(wide_item(), job_items(small_only=True)), st.integers(1, 80), st.booleans()).map(
        lambda t: {"mode": "sched", "jobs": [t[0], t[1]] if t[3] else [t[1], t[0]], "dup": False, "inside": True,
                   "schedule": [[0 if t[3] else 1, t[2], 2], [1 if t[3] else 0, 10**7, 0]], "max_switches": 4000})
    # shared libraries: two threads compile two main files of ONE project on disk; both import the same chain of 2-4
    # library files. One thread is stopped after 1-30 000 yield points for the whole run of the other (or both run under
    # a drawn schedule / freely).
    chain = st.tuples(st.integers(2, 4), st.integers(0, 7), st.integers(1, 30000), st.sampled_from(["pause", "pause", "sched", "free"]), st.booleans(),
                      st.lists(st.tuples(st.integers(0, 1), st.integers(1, 3000), st.just(0)).map(list), min_size=5, max_size=40)).map(
        lambda t: {"mode": "free" if t[3] == "free" else "sched", "dup": False, "shared_libs": True,
                   "jobs": [{"kind": "chain_ws", "depth": t[0], "variant": t[1], "which": w} for w in ((0, 1) if t[4] else (1, 0))],
                   "schedule": [] if t[3] == "free" else ([[0, t[2], 0], [1, 10**7, 0]] if t[3] == "pause" else t[5]), "max_switches": 4000})
    return weighted((6, sched_case), (2, free_case), (2, cold_case), (3, lock_case), (2, inside_case), (2, chain))


def chain_project(item):
    """A project on disk: main0.exps and main1.exps both import lib0.exps, which imports lib1.exps ... (a chain of
    `depth` libraries, each with a macro that calls the next one's). Returns the path of the main file of this item."""
    import os

    d, v = item["depth"], item["variant"]
    # (one directory per process: the 16 shards of a run draw the same few projects and must not rewrite each other's files)
    base = os.path.join(results.WS_ROOT, f"chain-{os.getpid()}-{d}-{v}")
    os.makedirs(base, exist_ok=True)
    for k in range(d):
        nxt = f'import "./lib{k + 1}.exps";\n' if k + 1 < d else ""
        call = f"~m{k + 1}($a);" if k + 1 < d else "Leaf($a);"
        text = nxt + f"macro m{k}($a) {{ Lib{k}_{v}($a); if ($a == {k}) {{ In{k}(); }} {call} }}\n" + "".join(f"macro pad{k}_{j}() {{ Pad({j}); }}\n" for j in range(v % 4))
        with open(os.path.join(base, f"lib{k}.exps"), "w") as fh:
            fh.write(text)
    for w in (0, 1):
        with open(os.path.join(base, f"main{w}.exps"), "w") as fh:
            fh.write('import "./lib0.exps";\n' + f"def 0 {{ Main{w}(); ~m0({w + v}); end; }}\n" + (f"def 1 for actor 2 {{ ~m0(7); hold; }}\n" if w else ""))
    return os.path.join(base, f"main{item['which']}.exps")


def make_job(item):
    if item["kind"] == "chain_ws":
        path = chain_project(item)
        with open(path) as fh:
            text = fh.read()
        return lambda: results.compile_result_nobudget_file(text, path)
    if item["kind"] == "ws":
        # files on disk, written once; every thread compiles the main file with a compiler object of its own
        ws = results.open_ws(item)
        return lambda: results.ws_compile(item, "main", ws=ws, budget=False)
    if item["kind"] == "program":
        text = results.input_text(item)
        return lambda: results.compile_result_nobudget(text)
    c = results.input_ssb(item)
    if c is None:
        return None
    n = int(item.get("repeat", 1))
    if n > 1:
        # a worker that handles several such files one after the other (each call on freshly built objects)
        def several():
            out = None
            for _ in range(n):
                r = results.decompile_result_nobudget(gen_ssb.build(c))
                if out is not None and r != out:
                    return {"repeat_differs": [out, r]}
                out = r
            return out

        return several
    return lambda: results.decompile_result_nobudget(gen_ssb.build(c))


def run_case_here(case, reference_first=True):
    """Runs the jobs of a case under the scheduler in THIS process; returns a JSON-able verdict.
    reference_first=False: the concurrent run comes first (cold caches), the sequential results afterwards."""
    # import everything up front: a thread parked inside a module's import would hold the import lock and
    # dead-lock the harness (imports are not what C12 is about; the DFA caches stay cold)
    import explorerscript.ssb_converting.ssb_compiler  # noqa
    import explorerscript.ssb_converting.ssb_decompiler  # noqa
    import explorerscript.ssb_script.ssb_converting.ssb_compiler  # noqa
    import explorerscript.ssb_script.ssb_converting.ssb_decompiler  # noqa
    import explorerscript.ssb_converting.compiler.compiler_visitor.position_mark_visitor  # noqa
    from vf import cut, model  # noqa
    import importlib
    import pkgutil

    import explorerscript

    for m in pkgutil.walk_packages(explorerscript.__path__, "explorerscript."):
        if ".cli" in m.name or ".pygments" in m.name:
            continue
        try:
            importlib.import_module(m.name)
        except Exception:  # noqa
            pass

    items = list(case["jobs"])
    if case.get("dup") and items:
        items.append(items[0])
    jobs, kinds, kept = [], [], []
    for it in items:
        j = make_job(it)
        if j is None:
            continue
        jobs.append(j)
        kinds.append(it["kind"])
        kept.append(it)
    if len(jobs) < 2:
        return {"skip": True}
    refs = None
    if reference_first:
        refs = [j() for j in jobs]
    s = sched.Scheduler(jobs, case["schedule"], max_switches=case.get("max_switches", 4000))
    got, errs = s.run()
    if refs is None:
        refs = [j() for j in jobs]
    out = {"switches": s.switches, "two_inside": s.switches_while_two_inside, "yield_points": s.yield_points, "fails": []}
    for i, (g, e, r) in enumerate(zip(got, errs, refs)):
        if e is not None:
            out["fails"].append([f"job_raised:{type(e).__name__}", f"job {i} ({kinds[i]}) raised {type(e).__name__}: {e}"])
        elif g != r:
            what = next((k for k in r if r.get(k) != (g or {}).get(k)), "?")
            out["fails"].append([f"result_differs:{kinds[i]}:{what}", f"job {i} ({kinds[i]}): {canon.first_diff(r, g, 'result')[:600]}"])
    return out


def evaluate_cold(case, stt):
    import os
    import subprocess

    from vf.core import REPO, VERIF

    env = dict(os.environ, PYTHONPATH=str(REPO) + os.pathsep + str(VERIF), PYTHONHASHSEED="0", VERIF_REPO=str(REPO))
    p = subprocess.run([sys.executable, "-m", "vf.fresh"], input=json.dumps({"concurrent": True, "case": case}), capture_output=True, text=True, env=env, cwd=str(VERIF), timeout=900)
    if p.returncode != 0:
        raise RuntimeError("cold worker failed: " + p.stderr[-400:] + p.stdout[-200:])
    out = json.loads(p.stdout)
    if out.get("skip"):
        stt.count("discard_fewer_than_two_jobs")
        return []
    stt.count("mode:cold_process")
    stt.add("yield_points", out["yield_points"])
    stt.add("switches", out["switches"])
    if out["two_inside"] >= 20:
        stt.mark_nontrivial(case)
    info = f"[cold process, switches={out['switches']} (two jobs inside: {out['two_inside']})]"
    return [Failure("cold:" + b, m + " " + info) for b, m in out["fails"]]


def evaluate(case, stt):
    if case["mode"] == "cold":
        return evaluate_cold(case, stt)
    fails = []
    items = list(case["jobs"])
    if case.get("dup") and items:
        items.append(items[0])  # the same input in two threads
    jobs, refs, kinds = [], [], []
    for it in items:
        if it["kind"] == "chain_ws":
            j = make_job(it)
            jobs.append(j)
            refs.append(j())  # (sequential result, computed before any thread starts)
            kinds.append(it["kind"])
            continue
        ref = results.reference(it)
        if ref.get("skip"):
            continue
        r = ref.get("compile") or ref.get("decompile") or ref.get("main")
        if r.get("raised") == "BUDGET":
            stt.skipped_budget += 1
            continue
        j = make_job(it)
        if j is None:
            continue
        jobs.append(j)
        refs.append(r)
        kinds.append(it["kind"])
    if len(jobs) < 2:
        stt.count("discard_fewer_than_two_jobs")
        return fails
    stt.count("mode:" + case["mode"])
    stt.count(f"jobs:{len(jobs)}")
    if case["mode"] == "sched":
        s = sched.Scheduler(jobs, case["schedule"], max_switches=case.get("max_switches", 4000))
        got, errs = s.run()
        stt.add("yield_points", s.yield_points)
        stt.add("switches", s.switches)
        if s.switches_while_two_inside >= 20:
            stt.mark_nontrivial(case)
        info = f"switches={s.switches} (with two jobs inside traced code: {s.switches_while_two_inside}), yield points={s.yield_points}"
    else:
        old = sys.getswitchinterval()
        sys.setswitchinterval(1e-6)
        got, errs = [None] * len(jobs), [None] * len(jobs)
        barrier = threading.Barrier(len(jobs))

        def run(i):
            try:
                barrier.wait(30)
                got[i] = jobs[i]()
            except BaseException as e:  # noqa
                errs[i] = e

        try:
            ts = [threading.Thread(target=run, args=(i,), daemon=True) for i in range(len(jobs))]
            for t in ts:
                t.start()
            for t in ts:
                t.join(600)
        finally:
            sys.setswitchinterval(old)
        stt.mark_nontrivial(case)
        info = "free-running threads, switch interval 1e-6 s"
    for i, (g, e, r) in enumerate(zip(got, errs, refs)):
        if e is not None:
            fails.append(Failure(f"job_raised:{type(e).__name__}", f"job {i} ({kinds[i]}) raised {type(e).__name__}: {e} [{info}]"))
        elif g != r:
            what = next((k for k in r if r.get(k) != (g or {}).get(k)), "?")
            fails.append(Failure(f"result_differs:{kinds[i]}:{what}", f"job {i} ({kinds[i]}): {canon.first_diff(r, g, 'result')[:600]} [{info}]"))
    if len(stt.samples) < 2 and case["mode"] == "sched" and s.switches_while_two_inside >= 20:
        stt.sample({"jobs": kinds, "schedule_head": case["schedule"][:12], "switches": s.switches, "yield_points": s.yield_points})
    return fails


def shrink_candidates(case):
    sch = case["schedule"]
    for i in range(0, len(sch), max(1, len(sch) // 10)):
        yield dict(case, schedule=sch[:i] + sch[i + max(1, len(sch) // 10):])
    if len(case["jobs"]) > 2:
        for i in range(len(case["jobs"])):
            yield dict(case, jobs=case["jobs"][:i] + case["jobs"][i + 1:])
