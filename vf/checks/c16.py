"""C16 - layout, comments and alternative spellings do not change the compiled ops (DESIGN.md 4, C16)."""
from __future__ import annotations

import os

from hypothesis import strategies as st

from vf import canon, gen_macro, gen_prog, render
from vf.core import Failure, call_guard
from vf.cut import compile_text

ID = "C16"
LEVEL = "exploration"
RULE = (
    "a gen_prog program (with or without macros) is rendered twice from the same token sequence with two independent "
    "draws of: separators at every token boundary (blanks, tabs, newlines, line/block comments, line joining), @ vs "
    "paragraph sign in label definitions, for_actor(X) / for actor X / for actor (X) / for_actor X, trailing commas, "
    "integer base and digit case, redundant leading zeros of decimals, quote style and single- vs multi-line string "
    "spelling. Oracle: identical ops (opcode, parameter values, relative jump structure), routine tables and "
    "position-mark values. Non-trivial = the two renderings differ in >= 3 of the listed dimensions; distinct by hash "
    "of (AST, tapes)."
    ' A twin-library stage (60 / 600 generated projects): the macros of a program are put into two library files that differ in one letter; a comment and a blank line in front of one of them must change neither ops, tables nor position marks. One layout tape in eight is the minified layout; redundant zeros number 1-3 or (1 in 64) 40 / 700 / 5000.'
)
ASSUMPTIONS = [
    "separators are inserted only between tokens; comments never start with '?:' ; block comments contain no '*/'",
    "trailing zeros of decimals are significant and are never changed",
    "the generated ANTLR lexer/parser files are the grammar (no ANTLR tool offline)",
]
CASES = {"quick": 4800, "thorough": 100000}

_tape = st.lists(st.integers(0, 10000), min_size=1, max_size=60)


def strategy(tier):
    prog = st.one_of(gen_prog.programs(max_stmts=30), gen_macro.macro_programs(single_file=True, max_stmts=30))
    return st.fixed_dictionaries({"prog": prog, "t1": _tape, "t2": _tape, "l1": st.one_of(st.none(), _tape), "l2": _tape})


def evaluate(case, stt):
    fails = []
    if case.get("kind") == "twin":
        r = twin_compare(case["files"])
        return [Failure(r[0], r[1])] if r else []
    prog = case["prog"]
    r1 = render.render(prog, render.Tape(case["t1"]), render.Tape(case["l1"]) if case["l1"] else None)
    r2 = render.render(prog, render.Tape(case["t2"]), render.Tape(case["l2"]), cr=True)
    dims = (r1.dims ^ r2.dims) | ({"layout"} if r1.text != r2.text else set())
    # dimensions in which the two texts really differ
    for d in sorted(r1.dims | r2.dims):
        stt.count("dim:" + d)
    c1, e1 = call_guard(lambda: compile_text(r1.text))
    c2, e2 = call_guard(lambda: compile_text(r2.text))
    if (e1 is None) != (e2 is None):
        ok_text, bad_text, err = (r1.text, r2.text, e2) if e1 is None else (r2.text, r1.text, e1)
        fails.append(Failure("one_rejected:" + err[0], f"one spelling compiles, the other raises {err[1]}\n--- accepted:\n{ok_text}\n--- rejected:\n{bad_text}"))
        return fails
    if e1 is not None:
        stt.count("both_rejected")
        if e1[0] != e2[0]:
            stt.count("both_rejected_differently")
        return fails
    a, b = canon.canon_compile_result(c1), canon.canon_compile_result(c2)
    if len(r1.dims | r2.dims) >= 3 and r1.text != r2.text:
        stt.mark_nontrivial(case)
    for key in ("ops", "table", "marks"):
        d = canon.first_diff(a[key], b[key], key)
        if d:
            fails.append(Failure(f"differs:{key}", f"{d}\n--- A:\n{r1.text}\n--- B:\n{r2.text}"))
            break
    if len(stt.samples) < 2 and len(r1.dims | r2.dims) >= 4:
        stt.sample({"A": r1.text[:1200], "B": r2.text[:1200], "dims": sorted(r1.dims | r2.dims)})
    return fails


def shrink_candidates(case):
    for p in gen_prog.shrink_candidates(case["prog"]):
        yield dict(case, prog=p)


# --------------------------------------------------------------------------------------
# twin-library stage: layout changes in an IMPORTED file
# --------------------------------------------------------------------------------------
def _twin_workspace(prog):
    """A generated single-file macro program becomes a project: its macros go, renamed with the suffix _a and _b, into
    two library files with the SAME text apart from that letter (a copied library - every position in the two files
    coincides); the main file imports both and holds the routines twice, once calling each copy."""
    import copy

    def renamed(suffix):
        p = copy.deepcopy(prog)

        def fn(s_, d):
            if s_["k"] == "mcall":
                s_["name"] += suffix

        for m in p["macros"]:
            m["name"] += suffix
            gen_prog.walk(m["body"], fn)
        for r in p["routines"]:
            gen_prog.walk(r["body"], fn)
        return p

    pa, pb = renamed("_a"), renamed("_b")
    n = len(prog["routines"])
    for r in pb["routines"]:
        r["id"] += n
        if r.get("name"):
            r["name"] += "_b"
    lib = lambda p: render.render({"imports": [], "macros": p["macros"], "routines": []}).text  # noqa
    main = render.render({"imports": ["./lib_a.exps", "./lib_b.exps"], "macros": [], "routines": pa["routines"] + pb["routines"]}).text
    return {"lib_a.exps": lib(pa), "lib_b.exps": lib(pb), "main.exps": main}


def twin_compare(files, stats=None):
    import shutil
    import tempfile

    from vf.cut import compile_text as plain_compile

    d = tempfile.mkdtemp(prefix="vf-c16twin-")
    try:
        out = []
        for variant in (0, 1):
            for name, text in files.items():
                if variant and name == "lib_b.exps":
                    text = "// this copy was moved down a little\n\n" + text
                with open(os.path.join(d, name), "w", encoding="utf-8") as fh:
                    fh.write(text)
            main = os.path.join(d, "main.exps")
            c, e = call_guard(lambda: plain_compile(files["main.exps"], main))
            out.append((c, e))
        (c1, e1), (c2, e2) = out
        if (e1 is None) != (e2 is None):
            return "twin:one_rejected", f"one layout of lib_b.exps compiles, the other raises {(e1 or e2)[1]}"
        if e1 is not None:
            if stats is not None:
                stats.count("twin_both_rejected")
            return None
        a, b = canon.canon_compile_result(c1), canon.canon_compile_result(c2)
        if stats is not None and a["marks"]:
            stats.count("twin_with_marks")
        for key in ("ops", "table", "marks"):
            df = canon.first_diff(a[key], b[key], key)
            if df:
                return f"twin:differs:{key}", f"comment and blank line in front of lib_b.exps: {df}\n--- lib_a.exps / lib_b.exps:\n{files['lib_a.exps']}\n--- main.exps:\n{files['main.exps']}"
        return None
    finally:
        shutil.rmtree(d, ignore_errors=True)


def extra(ctx):
    """C16 for imported files: a comment and a blank line in front of one of two otherwise identical library files
    changes neither ops, routine tables nor position marks of the main file. Cases are drawn like the others."""
    import hypothesis
    from hypothesis import HealthCheck, Phase, given, settings

    from vf.core import derive_seed, known_buckets, write_replay

    n = 60 if ctx.tier == "quick" else 600
    progs = []

    @hypothesis.seed(derive_seed(ctx.seed, ID, 998, "twin"))
    @settings(max_examples=n, database=None, deadline=None, phases=[Phase.generate], suppress_health_check=list(HealthCheck))
    @given(gen_macro.macro_programs(single_file=True, max_stmts=20))
    def collect(p):
        progs.append(p)

    collect()
    kb = known_buckets(ctx.known)
    for p in progs:
        if not p.get("macros"):
            continue
        files = _twin_workspace(p)
        ctx.stats.evaluations += 1
        ctx.stats.count("twin_library_runs")
        r = twin_compare(files, ctx.stats)
        if r is not None and r[0] not in kb and not any(v[0] == r[0] for v in ctx.violations):
            path = write_replay(ID, r[0], {"kind": "twin", "files": files}, r[1])
            ctx.violations.append((r[0], path))
            print(f"  {r[0]}: {r[1][:700]}")
