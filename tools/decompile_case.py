import os, sys, json; sys.path.insert(0, os.path.dirname(os.path.dirname(os.path.abspath(__file__)))); sys.path.insert(0, "/repo")
from vf import gen_ssb, decomp
d = json.load(open(sys.argv[1])); c = d.get("case", d)
class S:
    def count(self,*a): pass
c, prog = decomp.materialise(c, S())
print(gen_ssb.describe(c))
print(decomp.run_decompiler(c)[:2])
