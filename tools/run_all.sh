#!/bin/sh
# runs the given tier of every check (or of the ids given), prints one summary line per check
tier=${1:-quick}; shift
ids=${*:-C01 C02 C03 C04 C05 C06 C07 C08 C09 C10 C11 C12 C13 C14 C15 C16 C17 C18}
for c in $ids; do
  out=$(/venv/bin/python -m vf.run $c --tier $tier 2>&1); rc=$?
  echo "== $c exit=$rc"
  echo "$out" | grep -v "^KNOWN-FINDING" | grep "bucket\|^\[C\|VIOLATION\|HARNESS\|Traceback" | cut -c1-400
done
