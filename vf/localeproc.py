"""Child process of C05's environment stage: compiles the file named on the command line (read as UTF-8, as callers do)
and prints the canonical ops as ASCII JSON. Started with a non-UTF-8 locale by vf/checks/c05.py."""
from __future__ import annotations

import json
import locale
import sys


def result(path: str, lookup: list[str]) -> dict:
    from vf import canon
    from vf.cut import compile_text

    with open(path, encoding="utf-8") as fh:
        text = fh.read()
    try:
        c = compile_text(text, path, lookup_paths=lookup)
    except Exception as e:  # noqa
        return {"raised": type(e).__name__, "message": str(e)[:300]}
    return {"ops": json.loads(json.dumps(canon.canon_ops(c.routine_ops), default=str))}


if __name__ == "__main__":
    out = result(sys.argv[1], sys.argv[2:])
    out["preferred_encoding"] = locale.getpreferredencoding(False)
    sys.stdout.write(json.dumps(out, ensure_ascii=True))
