import os, sys, json, time; sys.path.insert(0, os.path.dirname(os.path.dirname(os.path.abspath(__file__)))); sys.path.insert(0, "/repo")
os.dup2(os.open(os.devnull, os.O_WRONLY), 2)
import logging; logging.disable(logging.CRITICAL)
from hypothesis import given, settings, seed, HealthCheck, Phase
from vf import gen_ssb, decomp, core
from vf.checks import c02
N = int(sys.argv[1]); SEED = int(sys.argv[2]); W = [int(x) for x in sys.argv[3].split(",")]
found = []; n=[0]
@seed(SEED)
@settings(max_examples=N, database=None, deadline=None, suppress_health_check=list(HealthCheck), phases=[Phase.generate])
@given(decomp.input_strategy(w1=W[0], w2=W[1], w3=W[2]))
def t(case):
    n[0]+=1
    fails = [f for f in c02.evaluate(case, core.Stats()) if not f.bucket.startswith("kf_")]
    if fails: found.append((case, fails[0]))
t()
print(len(found), "failing of", n[0])
seen=set()
for case, f in found[:40]:
    bucket=f.bucket; t0=time.time(); improved=True
    while improved and time.time()-t0 < 10:
        improved=False
        for c in c02.shrink_candidates(case):
            fs=[x for x in c02.evaluate(c, core.Stats()) if x.bucket==bucket]
            if fs: case,f=c,fs[0]; improved=True; break
    key=f.message[-600:]
    if key in seen: continue
    seen.add(key); print("="*70); print(f.bucket); print(f.message[:1800])
