"""Thin wrappers around the code under test (imported from /repo's working tree)."""
from __future__ import annotations

import sys

from vf import spec_tables as T

_BUDGET_TOOL_ID = 4  # sys.monitoring tool id


class BudgetExceeded(BaseException):
    """Deterministic step budget exhausted (DESIGN.md 2.3)."""


# --------------------------------------------------------------------------------------
# the stack the code under test gets is the one a plain caller would have: the interpreter's recursion limit as it is
# after importing the package (the package may raise it for itself - that is part of its behaviour), measured from the
# caller's frame. The harness raises the limit for its OWN recursive code (models, parser, renderer) and Hypothesis
# raises it while a test runs; neither may lend the code under test stack it would not have in a user's process.
# --------------------------------------------------------------------------------------
def _package_recursion_limit() -> int:
    import importlib

    for m in ("explorerscript.ssb_converting.ssb_compiler", "explorerscript.ssb_converting.ssb_decompiler",
              "explorerscript.ssb_script.ssb_converting.ssb_compiler", "explorerscript.ssb_script.ssb_converting.ssb_decompiler"):
        importlib.import_module(m)
    return sys.getrecursionlimit()


PACKAGE_RECURSION_LIMIT = _package_recursion_limit()
HARNESS_RECURSION_LIMIT = max(PACKAGE_RECURSION_LIMIT, 20000)
_cut_limit = [PACKAGE_RECURSION_LIMIT]


class cut_stack:
    """with cut_stack(): <call into the code under test>"""

    def __enter__(self):
        import threading

        self.old = None
        if threading.current_thread() is threading.main_thread():
            depth = 0
            f = sys._getframe(1)
            while f is not None:
                depth += 1
                f = f.f_back
            self.old = sys.getrecursionlimit()
            self.set = _cut_limit[0] + depth
            sys.setrecursionlimit(self.set)
        return self

    def __exit__(self, *exc):
        if self.old is not None:
            cur = sys.getrecursionlimit()
            if cur != self.set:
                # the code under test changed the limit itself during this call: in a user's process that lasts, so it
                # lasts for the later calls into the code under test here (and only for them)
                _cut_limit[0] = cur
            sys.setrecursionlimit(self.old)
        return False


class harness_stack:
    """with harness_stack(): <deeply recursive code of the harness itself>"""

    def __enter__(self):
        import threading

        self.old = None
        if threading.current_thread() is threading.main_thread() and sys.getrecursionlimit() < HARNESS_RECURSION_LIMIT:
            self.old = sys.getrecursionlimit()
            sys.setrecursionlimit(HARNESS_RECURSION_LIMIT)
        return self

    def __exit__(self, *exc):
        if self.old is not None:
            sys.setrecursionlimit(self.old)
        return False


def compile_text(text: str, file_name: str = "/nonexistent/main.exps", lookup_paths=None, compiler=None):
    from explorerscript.ssb_converting.ssb_compiler import ExplorerScriptSsbCompiler

    c = compiler or ExplorerScriptSsbCompiler(T.PERF_VAR, lookup_paths or [])
    with cut_stack():
        c.compile(text, file_name)
    return c


def dungeon_mode_constants():
    from explorerscript.ssb_converting.ssb_data_types import DungeonModeConstants

    d = T.DUNGEON_MODE_CONSTANTS
    return DungeonModeConstants(d[0], d[1], d[2], d[3])


def documented_errors():
    from explorerscript.error import ParseError, SsbCompilerError

    return (ParseError, SsbCompilerError, ValueError)


def decompile(routine_infos, routine_ops, named_coroutines):
    from explorerscript.ssb_converting.ssb_decompiler import ExplorerScriptSsbDecompiler

    dmc = dungeon_mode_constants()
    # another application object with OTHER names is built after ours (two projects open in one process): settings
    # objects are independent of each other
    from explorerscript.ssb_converting.ssb_data_types import DungeonModeConstants

    DungeonModeConstants("OTHER_CLOSED", "OTHER_OPEN", "OTHER_REQUEST", "OTHER_OPEN_AND_REQUEST")
    d = ExplorerScriptSsbDecompiler(routine_infos, routine_ops, named_coroutines, T.PERF_VAR, dmc)
    with cut_stack():
        return d.convert()


def decompile_ssbs(routine_infos, routine_ops, named_coroutines, prefix=None):
    from explorerscript.ssb_script.ssb_converting.ssb_decompiler import SsbScriptSsbDecompiler

    d = SsbScriptSsbDecompiler(routine_infos, routine_ops, named_coroutines)
    with cut_stack():
        return d.convert() if prefix is None else d.convert(prefix=prefix)


def compile_ssbs(text: str):
    from explorerscript.ssb_script.ssb_converting.ssb_compiler import SsbScriptSsbCompiler

    c = SsbScriptSsbCompiler()
    with cut_stack():
        c.compile(text)
    return c


# --------------------------------------------------------------------------------------
# deterministic step budget: counts function entries inside the explorerscript package
# --------------------------------------------------------------------------------------
class StepBudget:
    """with StepBudget(n): ...   raises BudgetExceeded after n python function entries in
    explorerscript code (antlr/igraph/stdlib frames are not counted)."""

    def __init__(self, limit: int):
        self.limit = limit
        self.count = 0
        self._mon = getattr(sys, "monitoring", None)

    def __enter__(self):
        self.count = 0
        if self._mon is not None:
            mon = self._mon
            try:
                mon.use_tool_id(_BUDGET_TOOL_ID, "vf-budget")
            except ValueError:
                mon.free_tool_id(_BUDGET_TOOL_ID)
                mon.use_tool_id(_BUDGET_TOOL_ID, "vf-budget")

            def on_start(code, offset):
                fn = code.co_filename
                if "/explorerscript/" not in fn or "/antlr/" in fn:
                    return mon.DISABLE
                self.count += 1
                if self.count > self.limit:
                    raise BudgetExceeded()

            mon.register_callback(_BUDGET_TOOL_ID, mon.events.PY_START, on_start)
            mon.set_events(_BUDGET_TOOL_ID, mon.events.PY_START)
        else:  # pragma: no cover

            def prof(frame, event, arg):
                if event == "call":
                    fn = frame.f_code.co_filename
                    if "/explorerscript/" in fn and "/antlr/" not in fn:
                        self.count += 1
                        if self.count > self.limit:
                            raise BudgetExceeded()

            sys.setprofile(prof)
        return self

    def __exit__(self, *exc):
        if self._mon is not None:
            mon = self._mon
            mon.set_events(_BUDGET_TOOL_ID, 0)
            mon.register_callback(_BUDGET_TOOL_ID, mon.events.PY_START, None)
            mon.free_tool_id(_BUDGET_TOOL_ID)
            # locations disabled with DISABLE stay disabled until restart_events(); harmless and cheap
        else:  # pragma: no cover
            sys.setprofile(None)
        return False


def settings_dict():
    d = T.DUNGEON_MODE_CONSTANTS
    return {"settings": {"performance_progress_list_var_name": T.PERF_VAR,
                         "dungeon_mode_constants": {"closed": d[0], "open": d[1], "request": d[2], "open_request": d[3]}}}


def write_settings(directory: str) -> str:
    import json
    import os

    p = os.path.join(directory, "settings.json")
    with open(p, "w") as fh:
        json.dump(settings_dict(), fh)
    return p


def compile_text_budget(text, file_name="/nonexistent/main.exps", lookup_paths=None, limit=3_000_000):
    """compile under the deterministic step budget; raises NoAnswer when it is exhausted"""
    try:
        with StepBudget(limit):
            return compile_text(text, file_name, lookup_paths)
    except BudgetExceeded:
        raise NoAnswer(f"compile() did not return within {limit} function entries") from None


class NoAnswer(Exception):
    pass
