"""C10 - compilation fails only in documented ways and rejects meaningless programs (DESIGN.md 4, C10)."""
from __future__ import annotations

import os
import shutil
import subprocess
import sys
import tempfile

from hypothesis import strategies as st

from vf import gen_macro, gen_prog, render
from vf.core import Failure, call_guard, exc_bucket, short_exc
from vf.cut import compile_text, documented_errors

ID = "C10"
LEVEL = "exploration"
RULE = (
    "classes: (a) valid generated programs; (b) token-level corruptions of valid programs (delete / duplicate / swap / "
    "replace a token, truncate, unbalance a brace or quote); (c) a valid program with exactly one injected static error "
    "from the property's list (stray break/continue/break_loop, undefined label for jump/call, switch ending in an empty "
    "case, two defaults, statements in a message switch, label in a with-block, not on an ordinary bit test, unknown / "
    "targeted routine headers with an unknown target kind or a decimal target, recursive macro (also call cycles of 1-4 macros whose members partly shadow macros of an imported file), too few macro arguments, missing / cyclic import, routine in an imported file); (d) degenerate "
    "files (label-only routines, alias first, routine ids out of order / with gaps / negative, meta-attribute-only files, "
    "empty text); (e) arbitrary Unicode text and text over an ExplorerScript-like alphabet; (f) SsbScript sources behind the is-ssb-script marker line, intact, truncated or with inserted junk (they are handed to the SsbScript compiler). Oracle: the call returns or "
    "raises ParseError / SsbCompilerError / ValueError; class (c) must raise one of them and leave no routine output. "
    "Non-trivial = the input gets past the parser (reaches the compile handlers): classes a, c, d and those of b that "
    "still parse; distinct by content hash. The CLI stage runs python -m explorerscript.cli.compile on a sample of class "
    "(c)/(b) inputs: non-zero exit and non-empty stderr."
    ' Macro call cycles have 1-4 members, in a third of the cases 5-94.'
)
ASSUMPTIONS = [
    "documented exception types: explorerscript.error.ParseError, SsbCompilerError, builtin ValueError (docstring of compile())",
    "routine ids above 60 are not generated (the compiler allocates a table slot per id)",
]
CASES = {"quick": 6400, "thorough": 150000}

ERRS = [
    "stray_break", "stray_continue", "stray_break_loop", "undef_jump", "undef_call", "empty_last_case", "two_defaults",
    "stmt_in_msgswitch", "label_in_with", "not_on_bit", "unknown_macro", "recursive_macro", "self_recursive_macro",
    "too_few_args", "missing_import", "cyclic_import", "routine_in_import", "missing_lookup_import", "macro_cycle", "routine_header", "bad_import_path",
]
SNIPPET = {
    "stray_break": "break;",
    "stray_continue": "continue;",
    "stray_break_loop": "break_loop;",
    "undef_jump": "jump @undefined_label_zz;",
    "undef_call": "call @undefined_label_zz;",
    "empty_last_case": "switch ($E_zz) { case 1: inj_x(); case 2: }",
    "two_defaults": "switch ($E_zz) { default: inj_x(); default: inj_y(); }",
    "stmt_in_msgswitch": "message_SwitchTalk ($E_zz) { case 1: inj_x(); }",
    "label_in_with": "with (actor 1) { @lbl_in_with_zz; }",
    "not_on_bit": "if (not $E_zz[3]) { inj_x(); }",
    "unknown_macro": "~undefined_macro_zz(1);",
    "recursive_macro": "~rec_a_zz();",
    "self_recursive_macro": "~rec_s_zz();",
    "too_few_args": "~need2_zz(1);",
}
PRELUDE = {
    "recursive_macro": "macro rec_a_zz() { inj_x(); ~rec_b_zz(); }\nmacro rec_b_zz() { ~rec_a_zz(); }\n",
    "self_recursive_macro": "macro rec_s_zz() { inj_x(); ~rec_s_zz(); }\n",
    "too_few_args": "macro need2_zz($a, $b) { inj_x($a, $b); }\n",
}
TOP_LEVEL_ONLY = {"stray_break", "stray_continue", "stray_break_loop"}
ALPHA = list("{}()[]<>;:,=@$~'\"\\/*\n \t.-0123456789abxdefcoro") + ["def ", "coro ", "macro ", "if ", "switch ", "case ", "'''", '"""', "//", "/*", "*/", "§", "Position", "import "]

_tape = st.lists(st.integers(0, 10000), min_size=1, max_size=30)


def strategy(tier):
    prog = st.one_of(gen_prog.programs(max_stmts=25, with_control=True), gen_macro.macro_programs(single_file=True, max_stmts=25, with_control=True))
    valid = st.fixed_dictionaries({"kind": st.just("valid"), "prog": prog, "tape": _tape})
    corrupt = st.fixed_dictionaries({"kind": st.just("corrupt"), "prog": prog, "tape": _tape, "ops": st.lists(st.tuples(st.integers(0, 6), st.integers(0, 10000), st.integers(0, 10000)).map(list), min_size=1, max_size=3)})
    inject = st.fixed_dictionaries({"kind": st.just("inject"), "prog": gen_prog.programs(max_stmts=20), "err": st.sampled_from(ERRS), "at": st.integers(0, 10000)})
    degenerate = st.fixed_dictionaries({"kind": st.just("degenerate"), "which": st.integers(0, 11), "n": st.integers(0, 60), "prog": gen_prog.programs(max_stmts=8)})
    text = st.fixed_dictionaries({"kind": st.just("text"), "text": st.one_of(st.text(max_size=60), st.lists(st.sampled_from(ALPHA), max_size=40).map("".join))})
    from vf.checks import c03

    ssbs = st.fixed_dictionaries({"kind": st.just("ssbs"), "src": c03.ssbs_programs(), "cut": st.one_of(st.none(), st.integers(0, 4000)),
                                  "junk": st.one_of(st.none(), st.tuples(st.integers(0, 4000), st.sampled_from(ALPHA)).map(list))})
    from vf.core import weighted

    return weighted((1, valid), (2, corrupt), (3, inject), (1, degenerate), (1, text), (1, ssbs))


def corrupt_tokens(r, ops):
    toks = [t.s for t in r.toks]
    for kind, a, b in ops:
        if not toks:
            break
        i, j = a % len(toks), b % len(toks)
        if kind == 0:
            del toks[i]
        elif kind == 1:
            toks.insert(i, toks[i])
        elif kind == 2:
            toks[i], toks[j] = toks[j], toks[i]
        elif kind == 3:
            toks[i] = toks[j]
        elif kind == 4:
            toks = toks[: max(1, i)]
        elif kind == 5:
            toks[i] = ["{", "}", "(", ")", "'", '"', "'''", ";", "/*"][b % 9]
        else:
            toks[i] = ["break", "continue", "case", "default", "alias", "previous", "$x", "@", "~m", "0x", "-", "1.5.5"][b % 12]
    out, prev = [], ""
    for s in toks:
        out.append(" " if render.needs_sep(prev, s) else "")
        out.append(s)
        if s == ";" or s == "{" or s == "}":
            out.append("\n")
        prev = s
    return "".join(out)


def inject(prog, err, at):
    """Returns (text, files) where files is a dict of extra files (relative to a temp base)."""
    r = render.render(prog)
    files = {}
    if err in SNIPPET:
        cands = [(tag[1], pos) for tag, pos in r.marks.items() if tag[0] == "stmt" and isinstance(tag[1][-1], int)]
        if err in TOP_LEVEL_ONLY:
            cands = [c for c in cands if len(c[0]) == 3 and c[0][0] == "r"]
        cands.sort(key=lambda c: c[1])
        lines = r.text.split("\n")
        if not cands:
            return None, None
        path, (line, col) = cands[at % len(cands)]
        lines[line] = lines[line][:col] + SNIPPET[err] + " " + lines[line][col:]
        return PRELUDE.get(err, "") + "\n".join(lines), files
    if err == "missing_import":
        return 'import "./does_not_exist_zz.exps";\n' + r.text, files
    if err == "missing_lookup_import":
        return 'import "does_not_exist_zz.exps";\n' + r.text, files
    if err == "cyclic_import":
        files["cyc_a.exps"] = 'import "./cyc_b.exps";\nmacro ca() { inj_x(); }\n'
        files["cyc_b.exps"] = 'import "./cyc_a.exps";\nmacro cb() { inj_y(); }\n'
        return 'import "./cyc_a.exps";\n' + r.text, files
    if err == "bad_import_path":
        # import strings the resolver must refuse or fail to find: a lookup-path import with a '.' / '..' component,
        # an empty string, a directory, a path with a NUL-free but odd spelling
        paths = ["lib/../macros.exps", "a/./b.exps", "..", ".", "", "lib/", "x/../../y.exps", "./", "../", "/", "a\\b.exps", "lib//x.exps", " ", "./nope/../nope.exps"]
        return f'import "{paths[at % len(paths)]}";\n' + r.text, files
    if err == "routine_header":
        # targeted routine headers: an unknown target kind, or a decimal number as target, with every target spelling
        kinds = ["foo", "Actor", "actors", "actor", "object", "performer"]
        targets = ["3", "ACTOR_PLAYER", "$x", "1.5", "-1", "0x10", "-.5", "007.50"]
        kind = kinds[at % len(kinds)]
        tgt = targets[(at // len(kinds)) % len(targets)]
        paren = (at // 64) % 2
        head = f"def 0 for {kind}({tgt})" if paren else f"def 0 for {kind} {tgt}"
        if kind in ("actor", "object", "performer") and "." not in tgt:
            return None, None  # a valid header: not an error case
        return head + " { inj_x(); end; }\n", files
    if err == "macro_cycle":
        # a call cycle of 1-4 (or, rarely, up to 94) macros; each member is defined locally, and a drawn subset of the names is ALSO supplied
        # (with a harmless body) by an imported file - the local definition shadows the imported one
        # (sizes: two cases in six have a long ring of 5-94 macros)
        n = 1 + at % 6 if at % 6 < 4 else 5 + (at // 6) % 90
        mask = (at // 4) % (1 << n)
        entry = (at // 64) % n
        names = [f"cyc{i}_zz" for i in range(n)]
        lib = "".join(f"macro {names[i]}() {{ lib_{i}(); }}\n" for i in range(n) if mask >> i & 1)
        pre = ""
        if lib:
            files["cyc_lib.exps"] = lib + "macro other_zz() { lib_o(); }\n"
            pre = 'import "./cyc_lib.exps";\n'
        local = "".join(f"macro {names[i]}() {{ inj_{i}(); ~{names[(i + 1) % n]}(); }}\n" for i in range(n))
        cands = sorted(pos for tag, pos in r.marks.items() if tag[0] == "stmt" and isinstance(tag[1][-1], int))
        if not cands:
            return None, None
        lines = r.text.split("\n")
        line, col = cands[(at // 256) % len(cands)]
        lines[line] = lines[line][:col] + f"~{names[entry]}(); " + lines[line][col:]
        body = "\n".join(lines)
        return (pre + local + body if at % 2 else pre + body + "\n" + local), files
    if err == "routine_in_import":
        files["has_routine.exps"] = "macro hr() { inj_x(); }\ndef 0 { inj_y(); }\n"
        return 'import "./has_routine.exps";\n' + r.text, files
    raise ValueError(err)


def degenerate_text(which, n, prog):
    body = render.render(prog).text
    if which == 0:
        return "def 0 { @only_label; }\n"
    if which == 1:
        return "def 0 { alias previous; }\n" + ("def 1 { x(); }\n" if n % 2 else "")
    if which == 2:
        return "def 1 { a(); }\ndef 0 { b(); }\n"
    if which == 3:
        return f"def 0 {{ a(); }}\ndef {2 + n} {{ b(); }}\n"
    if which == 4:
        return f"def -{1 + n % 3} {{ a(); }}\n"
    if which == 5:
        return "//?: a: b\n" + (body if n % 2 else "")
    if which == 6:
        return "//?: is-ssb-script: true\n" + (body if n % 3 == 0 else "")
    if which == 7:
        return ["", "\n", " ", "// only a comment", "/* open comment"][n % 5]
    if which == 8:
        return "macro only() { a(); }\n"
    if which == 9:
        return f"def {n} {{ a(); }}\n"
    if which == 10:
        return "coro A { a(); }\ndef 0 { b(); }\ncoro B { alias previous; }\n"
    return "def 0 { @a; @b; }\ndef 1 { jump @a; @c; }\ndef 0 { again(); }\n"


def evaluate(case, stt):
    fails = []
    kind = case["kind"]
    files = {}
    must_raise = False
    if kind == "valid":
        text = render.render(case["prog"], render.Tape(case["tape"])).text
    elif kind == "corrupt":
        text = corrupt_tokens(render.render(case["prog"], render.Tape(case["tape"])), case["ops"])
    elif kind == "inject":
        text, files = inject(case["prog"], case["err"], case["at"])
        if text is None:
            stt.count("inject_no_position")
            return fails
        must_raise = True
        stt.count("inject:" + case["err"])
    elif kind == "ssbs":
        from vf.checks import c03

        body = c03.ssbs_text(case["src"])
        if case["cut"] is not None:
            body = body[: case["cut"] % (len(body) + 1)]
        if case["junk"] is not None:
            at = case["junk"][0] % (len(body) + 1)
            body = body[:at] + case["junk"][1] + body[at:]
        text = "//?: is-ssb-script: true\n" + body
    elif kind == "degenerate":
        text = degenerate_text(case["which"], case["n"], case["prog"])
        stt.count(f"degenerate:{case['which']}")
    else:
        text = case["text"]
    stt.count("kind:" + kind)
    fails.extend(check_text(text, files, must_raise, stt, case.get("err")))
    return fails


def check_text(text, files, must_raise, stt, err=None, keep_dir=None):
    from explorerscript.error import ParseError

    fails = []
    base = None
    fname = "/nonexistent-vf/main.exps"
    if files:
        base = tempfile.mkdtemp(prefix="vf-c10-")
        for rel, content in files.items():
            with open(os.path.join(base, rel), "w", encoding="utf-8") as fh:
                fh.write(content)
        fname = os.path.join(base, "main.exps")
    try:
        comp = None
        try:
            # two lookup directories are always configured (they need not exist): the lookup branch of the import
            # resolver runs for every import written without a leading '.' or '/'
            comp = compile_text(text, fname, ["vf_lookup_1", "vf_lookup_2/sub"])
            exc = None
        except Exception as e:  # noqa
            exc = e
        if exc is None:
            stt.count("accepted")
            stt.mark_nontrivial(text)
            if must_raise:
                fails.append(Failure(f"accepted:{err}", f"statically meaningless program ({err}) was accepted\n{text}"))
        else:
            if isinstance(exc, documented_errors()):
                stt.count("raised:" + type(exc).__name__)
                if not isinstance(exc, ParseError):
                    stt.mark_nontrivial(text)
            else:
                fails.append(Failure(exc_bucket(exc), f"undocumented exception {short_exc(exc)}\n{text}"))
        if len(stt.samples) < 3 and must_raise and exc is not None:
            stt.sample({"class": "inject:" + str(err), "text": text[:600], "raised": short_exc(exc, 160)})
    finally:
        if base:
            shutil.rmtree(base, ignore_errors=True)
    return fails


def builtin_replays():
    out = []
    for err in ERRS:
        prog = {"imports": [], "macros": [], "routines": [{"kind": "def", "id": 0, "name": None, "target": None, "alias": False,
                "body": [{"k": "op", "name": "a", "args": [], "ctx": None}, {"k": "ctl", "v": "end"}]}]}
        out.append((f"inject-{err}", {"kind": "inject", "prog": prog, "err": err, "at": 0}))
    for w in range(12):
        out.append((f"degenerate-{w}", {"kind": "degenerate", "which": w, "n": 3, "prog": {"imports": [], "macros": [], "routines": [{"kind": "def", "id": 0, "name": None, "target": None, "alias": False, "body": [{"k": "ctl", "v": "end"}]}]}}))
    return out


def extra(ctx):
    """CLI stage: the compile command must exit non-zero with a message on stderr for rejected inputs
    and zero for accepted ones."""
    from vf.core import REPO, VERIF, write_replay

    n = 6 if ctx.tier == "quick" else 40
    base = tempfile.mkdtemp(prefix="vf-c10cli-")
    try:
        samples = [("stray_break", "def 0 { a(); break; }\n", True), ("undef_jump", "def 0 { jump @nope; }\n", True),
                   ("syntax", "def 0 { a( }\n", True), ("two_defaults", "def 0 { switch ($X) { default: a(); default: b(); } }\n", True),
                   ("valid", "def 0 { a(); end; }\n", False), ("unknown_macro", "def 0 { ~nope(); }\n", True)]
        import itertools
        extra_errs = [e for e in ERRS if e in SNIPPET]
        for e in itertools.islice(itertools.cycle(extra_errs), max(0, n - len(samples))):
            samples.append((e, PRELUDE.get(e, "") + "def 0 { a(); " + (SNIPPET[e]) + " end; }\n", True))
        env = dict(os.environ, PYTHONPATH=str(REPO))
        from vf.cut import write_settings

        settings = write_settings(base)
        for name, text, must_fail in samples[:max(n, 6)]:
            p = os.path.join(base, "in.exps")
            with open(p, "w") as fh:
                fh.write(text)
            r = subprocess.run([sys.executable, "-m", "explorerscript.cli.compile", "--settings", settings, p], capture_output=True, text=True, env=env, cwd=base, timeout=120)
            ctx.stats.evaluations += 1
            ctx.stats.count("cli_runs")
            bad = None
            if must_fail and (r.returncode == 0 or not r.stderr.strip()):
                bad = f"cli:{name}:exit{r.returncode}"
            if not must_fail and r.returncode != 0:
                bad = f"cli:{name}:exit{r.returncode}"
            if bad and bad not in {b for e in ctx.known for b in e.get("buckets", [])}:
                path = write_replay(ID, bad, {"kind": "text", "text": text}, f"compile CLI exit={r.returncode} stderr={r.stderr[-300:]!r}")
                ctx.violations.append((bad, path))
                print(f"  {bad}: stderr={r.stderr[-300:]!r}")
    finally:
        shutil.rmtree(base, ignore_errors=True)
    if ctx.tier == "thorough":
        fuzz_stage(ctx)


def fuzz_stage(ctx):
    """Coverage-guided stage (atheris / libFuzzer, vf/fuzz_c10.py): 8 workers x VERIF_FUZZ_RUNS executions over token
    sequences and raw text, same exception-type oracle. A crash input becomes an ordinary C10 'text' replay."""
    from vf.core import REPO, VERIF, write_replay
    from vf import fuzz_c10

    deps = os.path.join(str(VERIF), ".deps")
    probe = subprocess.run([sys.executable, "-c", "import atheris"], env=dict(os.environ, PYTHONPATH=deps), capture_output=True)
    if probe.returncode != 0:
        subprocess.run([sys.executable, "-m", "pip", "install", "--no-index", "--find-links", "/opt/veriftools/wheels", "--target", deps, "atheris"],
                       capture_output=True, env=dict(os.environ, PIP_NO_INDEX="1"))
        probe = subprocess.run([sys.executable, "-c", "import atheris"], env=dict(os.environ, PYTHONPATH=deps), capture_output=True)
    if probe.returncode != 0:
        ctx.stats.count("fuzz_stage_skipped_no_atheris")
        print("  fuzz stage skipped: atheris is not installable offline here")
        return
    runs = int(os.environ.get("VERIF_FUZZ_RUNS", "40000"))
    base = tempfile.mkdtemp(prefix="vf-c10-fuzz-")
    procs = []
    try:
        for w in range(8):
            corp, art = os.path.join(base, f"corpus{w}"), os.path.join(base, f"art{w}")
            os.makedirs(corp)
            os.makedirs(art)
            if w % 2:  # odd workers start from a few small valid programs, even ones from the empty corpus
                for j, src in enumerate(["def 0 { a(); end; }", "macro m($a) { x($a); }\ndef 0 { ~m(1); }", "coro A { if ($A == 1) { b(); } }", "def 0 for actor 1 { switch ($A) { case 1: a(); break; default: b(); } }"]):
                    with open(os.path.join(corp, f"s{j}"), "wb") as fh:
                        fh.write(b"\x01" + src.encode())
            env = dict(os.environ, PYTHONPATH=os.pathsep.join([deps, str(REPO), str(VERIF)]), PYTHONHASHSEED="0")
            log = open(os.path.join(base, f"log{w}"), "wb")
            procs.append((w, art, subprocess.Popen([sys.executable, "-m", "vf.fuzz_c10", corp, f"-runs={runs}", f"-seed={1 + ctx.seed * 100 + w}", "-max_len=384",
                                                    f"-artifact_prefix={art}/", "-timeout=60"], env=env, cwd=str(VERIF), stdout=log, stderr=log)))
        for w, art, pr in procs:
            try:
                pr.wait(timeout=3 * 3600)
            except subprocess.TimeoutExpired:
                pr.kill()
                ctx.stats.count("fuzz_worker_timeout")
            ctx.stats.count("fuzz_workers")
            ctx.stats.add("fuzz_executions", runs)
            for fn in sorted(os.listdir(art)):
                data = open(os.path.join(art, fn), "rb").read()
                text = fuzz_c10.decode(data)
                st2 = type(ctx.stats)()
                fails = check_text(text, {}, False, st2)
                if fn.startswith("timeout") or fn.startswith("oom"):
                    ctx.stats.count("fuzz_timeout_or_oom_artifact")
                    continue
                for f in fails:
                    if f.bucket not in {b for e in ctx.known for b in e.get("buckets", [])}:
                        path = write_replay(ID, "fuzz:" + f.bucket, {"kind": "text", "text": text}, f.message)
                        ctx.violations.append(("fuzz:" + f.bucket, path))
                        print(f"  fuzz:{f.bucket}: {f.message[:300]}")
    finally:
        for _, _, pr in procs:
            if pr.poll() is None:
                pr.kill()
        shutil.rmtree(base, ignore_errors=True)


def shrink_candidates(case):
    if "prog" in case:
        for p in gen_prog.shrink_candidates(case["prog"]):
            yield dict(case, prog=p)
    if case.get("kind") == "text":
        t = case["text"]
        for i in range(len(t)):
            yield dict(case, text=t[:i] + t[i + 1:])
