"""C13 - flat structured programs decompile back to structured, jump-free text (DESIGN.md 4, C13)."""
from __future__ import annotations

from hypothesis import strategies as st

from vf import decomp, gen_prog, gen_ssb, parse, render
from vf.core import Failure, call_guard
from vf.cut import compile_text

ID = "C13"
LEVEL = "exploration"
RULE = (
    "gen_prog.flat: exactly the class of the statement - routines are sequences of plain statements (operations, "
    "assignments, with-blocks / inline contexts, message switches), if/elseif/else chains (with ||, not, empty blocks) "
    "and switches with break-terminated cases (all header forms, grouped cases, default anywhere); blocks hold plain "
    "statements only; one final terminator; 1-4 routines. Oracle: decompile(renumber(compile(P))) is ExplorerScript "
    "(no fallback marker), parses, contains no jump statement, and every operation name of P occurs exactly once. "
    "Non-trivial = some routine has >= 2 blocks, or an elseif, or a default; distinct by AST hash."
    ' One case in 400 is a routine of 200-1400 structures in a row followed by a short second routine. Half of the routine sets are handed over as instances of a caller-side subclass of SsbOperation.'
)
ASSUMPTIONS = [
    "operation names are unique per program by construction, so 'printed exactly once' is a count of the name in the parsed text",
    "case menu()/menu2() headers are only generated under message_SwitchMenu-style switch headers and value/operator headers under the others (what the decompiler's switch table documents)",
]
CASES = {"quick": 6400, "thorough": 60000}


KF_JOIN = "kf_join_search_finds_immediate_joins_only"


def needs_join_search(prog) -> bool:
    """Known finding F-C13-1: the common-join search never looks further than the direct targets of the branch
    edges (its loop over the next edges iterates over an empty list), so an if or switch whose branches do not
    rejoin immediately is written with labels and jumps. Even `if (a || b) {}` and a switch of break-only cases need
    the search (the else / default path runs through a Jump op), so the predicate is: the program contains an if, or
    a switch with at least one case. Programs without such a block, the no-fallback and the printed-exactly-once
    halves of the property stay fully checked."""
    for r in prog["routines"]:
        for s in r["body"]:
            if s["k"] == "if" or (s["k"] == "switch" and s["cases"]):
                return True
    return False


def _long_flat(d):
    """routine 0: n structures in a row (empty ifs, ifs with one operation, break-only switches - the shapes the
    decompiler structures without its join search); routine 1: a short routine with structures of its own"""
    n, kinds = d["n"], d["kinds"]
    cnt = [0]

    def op():
        cnt[0] += 1
        return {"k": "op", "name": f"lf_{cnt[0]}", "args": [], "ctx": None}

    def block(i, k):
        cond = {"c": "op", "l": {"t": "const", "v": f"$L_{i % 9}"}, "op": "==", "r": {"t": "int", "v": i % 100}, "value_of": False}
        if k == "switch":
            return {"k": "switch", "head": {"h": "var", "v": {"t": "const", "v": f"$L_{i % 9}"}}, "cases": [{"default": False, "head": {"ch": "val", "v": {"t": "int", "v": i % 100}}, "body": [{"k": "ctl", "v": "break"}]}]}
        return {"k": "if", "not": False, "conds": [cond], "body": [], "elifs": [], "else": None}

    body0 = [op()] + [block(i, kinds[i % len(kinds)]) for i in range(n)] + [op(), {"k": "ctl", "v": "end"}]
    body1 = [op(), block(n, "if"), op(), {"k": "with", "type": "actor", "val": {"t": "int", "v": 3}, "stmt": op()}, block(n + 1, kinds[0]), op(), {"k": "ctl", "v": "hold"}]
    mk = lambda i, b: {"kind": "def", "id": i, "name": None, "target": None, "alias": False, "body": b}  # noqa
    return {"imports": [], "macros": [], "routines": [mk(0, body0), mk(1, body1)]}


def strategy(tier):
    from vf.core import weighted

    usual = st.fixed_dictionaries({"prog": gen_prog.programs(flat=True, max_stmts=30), "gaps": st.lists(st.integers(0, 3), min_size=1, max_size=4)})
    # sizes: one case in 400 is a routine with 200-1400 structures in a row, followed by a short second routine
    long_flat = st.fixed_dictionaries({"long_flat": st.fixed_dictionaries({"n": st.integers(200, 1400), "kinds": st.lists(st.sampled_from(["if", "if", "switch"]), min_size=1, max_size=3)}),
                                       "gaps": st.lists(st.integers(0, 1), min_size=1, max_size=2)})
    return weighted((399, usual), (1, long_flat))


def op_names(prog):
    names = []

    def fn(s, d):
        if s["k"] == "op":
            names.append(s["name"])
        if s["k"] == "switch" and s["head"]["h"] == "op":
            names.append(s["head"]["op"]["name"])
        if s["k"] == "if":
            for cl in [s] + s.get("elifs", []):
                for c in cl["conds"]:
                    if c["c"] == "opn":
                        names.append(c["op"]["name"])

    for r in prog["routines"]:
        gen_prog.walk(r["body"], fn)
    return names


def count_stmt(prog, pred):
    n = [0]

    def fn(s, d):
        if pred(s):
            n[0] += 1

    for r in prog["routines"]:
        gen_prog.walk(r["body"], fn)
    return n[0]


def normalise_flat(prog):
    """Keeps the program inside what the decompiler's switch table documents: menu case headers only under
    message_SwitchMenu / message_SwitchMenu2, other headers elsewhere; switch operations come from the table."""
    import copy

    p = copy.deepcopy(prog)
    n = [0]

    def fix(stmts):
        for s in stmts:
            if s["k"] == "switch":
                h = s["head"]
                menuish = h["h"] == "op" and h["op"]["name"] in ("message_SwitchMenu", "message_SwitchMenu2")
                if h["h"] == "op" and h["op"]["name"].startswith("op_"):
                    h["op"]["name"] = "ProcessSpecial"
                for c in s["cases"]:
                    hd = c.get("head")
                    if hd is None:
                        continue
                    if menuish and hd["ch"] in ("val", "op"):
                        n[0] += 1
                        c["head"] = {"ch": "menu2", "v": {"t": "int", "v": n[0]}}
                    if not menuish and hd["ch"] in ("menu", "menu2"):
                        n[0] += 1
                        c["head"] = {"ch": "val", "v": {"t": "int", "v": n[0]}}
                    if h["h"] == "scn" and hd["ch"] == "op" and False:
                        pass
                for c in s["cases"]:
                    fix(c["body"])
            elif s["k"] == "if":
                fix(s["body"])
                for e in s.get("elifs", []):
                    fix(e["body"])
                if s.get("else") is not None:
                    fix(s["else"])

    for r in p["routines"]:
        fix(r["body"])
    return p


def evaluate(case, stt):
    fails = []
    if "long_flat" in case:
        stt.count("long_flat")
        case = dict(case, prog=_long_flat(case["long_flat"]))
    prog = normalise_flat(case["prog"])
    if not gen_prog.is_flat(prog):
        stt.count("discard_not_flat")
        return fails
    classes = gen_prog.classify(prog)
    for c in classes:
        stt.count(c)
    text = render.render(prog).text
    comp, exc = call_guard(lambda: compile_text(text))
    if exc is not None:
        stt.count("rejected_by_compiler")
        return fails
    c = gen_ssb.case_from_compiled(comp, case["gaps"])
    if c is None:
        return fails
    c["caller_style"] = sum(case["gaps"]) % 2 == 1  # (the application's own op class; a function of the drawn gaps)
    status, a, b = decomp.run_decompiler(c)
    if status != "ok":
        stt.count("decompiler_failed_(C06)")
        if status == "budget":
            stt.skipped_budget += 1
        return fails
    out = a
    nblocks = max((sum(1 for s in r["body"] if s["k"] in ("if", "switch")) for r in prog["routines"]), default=0)
    if nblocks >= 2 or "elseif" in classes or "default" in classes:
        stt.mark_nontrivial(prog)
    shape = "two_blocks" if nblocks >= 2 else ("one_block" if nblocks == 1 else "no_block")
    for key in ("default_first", "default", "grouped_case", "elseif", "else", "if_not", "empty_block", "switch", "if"):
        if key in classes:
            shape = key
            break
    if out.startswith(decomp.MARKER):
        fails.append(Failure("fallback:" + shape, f"flat program decompiled to the SsbScript fallback\n--- source:\n{text}"))
        return fails
    ast, exc = call_guard(lambda: parse.parse_program(out))
    if exc is not None:
        stt.count("unparsable_(C02)")
        return fails
    njumps = 0
    names = []
    for r in ast["routines"]:
        def fn(s, d):
            nonlocal njumps
            if s["k"] == "jump":
                njumps += 1
        gen_prog.walk(r["body"], fn)
    names = op_names(ast)
    want = op_names(prog)
    if njumps:
        bucket = KF_JOIN if needs_join_search(prog) else "has_jump:" + shape
        fails.append(Failure(bucket, f"{njumps} jump statement(s) in the decompiled text\n--- source:\n{text}\n--- decompiled:\n{out}"))
    from collections import Counter

    cw, cg = Counter(want), Counter(names)
    # operation names used by the generator for switch/condition ops may repeat (ProcessSpecial, BranchSum): compare counts
    if cw != cg:
        diff = {k: (cw.get(k, 0), cg.get(k, 0)) for k in set(cw) | set(cg) if cw.get(k, 0) != cg.get(k, 0)}
        fails.append(Failure("op_count:" + shape, f"operations printed a different number of times (source, text): {diff}\n--- source:\n{text}\n--- decompiled:\n{out}"))
    if len(stt.samples) < 2 and nblocks >= 2 and not fails:
        stt.sample({"source": text[:1200], "decompiled": out[:1200]})
    return fails


def shrink_candidates(case):
    if "long_flat" in case:
        d = case["long_flat"]
        for n in (d["n"] // 2, d["n"] - 100, d["n"] - 10, d["n"] - 1):
            if 1 <= n < d["n"]:
                yield dict(case, long_flat=dict(d, n=n))
        return
    for p in gen_prog.shrink_candidates(case["prog"]):
        if gen_prog.is_flat(p):
            yield dict(case, prog=p)
