"""Regenerates seeded/README.md from the meta.json files (written by tools/check_seeded.py) and seeded/HISTORY.md."""
import json
import os
import sys

ROOT = os.path.join(os.path.dirname(os.path.dirname(os.path.abspath(__file__))), "seeded")

HEAD = """# Independently written breaking changes

Each directory holds `patch.diff` (applies to /repo), `demo.py` (passes on the pristine tree, fails on the patched one;
run with REPO_DIR=<tree>), `notes.md` (what was changed and what it needs to manifest, written by the author of the
change) and `meta.json` (what `tools/check_seeded.py` ran and saw). The authors were fresh sub-agents that saw only the
text of one property and a scratch worktree - nothing of /verif. Round 1 (`-a`) asked for a realistic breaking change;
round 2 (`-b`) asked for one that needs a specific conjunction of circumstances and that a random harness would
probably miss.

To re-run one: `python3 tools/check_seeded.py <name> seeded/<name> --property <ID> [--checks C01,C02] [--keep]`;
all of them: `sh tools/check_all_seeded.sh`. This table: `python3 tools/seeded_readme.py`.

| change | property | repository tests with the change | demonstration | checks run against it (quick tier) |
|---|---|---|---|---|
"""


def main():
    rows = []
    for name in sorted(os.listdir(ROOT)):
        mp = os.path.join(ROOT, name, "meta.json")
        if not os.path.isfile(mp):
            continue
        m = json.load(open(mp))
        runs = []
        for k, v in m.get("checks_run", {}).items():
            runs.append(f"{k}: {'CAUGHT' if v.get('caught') else 'missed'} ({v.get('wall_s', '?')}s)")
        rows.append(f"| {name} | {m.get('property')} | {m.get('tests', '?')} | {'ok' if m.get('demo_ok') else 'NOT OK'} | {'; '.join(runs)} |")
    out = HEAD + "\n".join(rows) + "\n"
    hp = os.path.join(ROOT, "HISTORY.md")
    if os.path.isfile(hp):
        out += "\n" + open(hp).read()
    open(os.path.join(ROOT, "README.md"), "w").write(out)
    print(f"{len(rows)} changes")


if __name__ == "__main__":
    sys.exit(main())
