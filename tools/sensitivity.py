#!/usr/bin/env python3
"""Sensitivity harness (DESIGN.md 2.6): applies a scripted small mutation to a scratch copy of the
repository's package (outside /repo and /verif, deleted afterwards) and confirms that the named
check turns red (exit 1 with a VIOLATION line).  Not a MANIFEST check.

usage: tools/sensitivity.py [--only C01[,C02..]] [--name substr] [--patch file.diff --check C01]
"""
from __future__ import annotations

import argparse
import json
import os
import shutil
import subprocess
import sys
import tempfile
import time

HERE = os.path.dirname(os.path.dirname(os.path.abspath(__file__)))
REPO = "/repo"
sys.path.insert(0, HERE)


def load_mutations():
    with open(os.path.join(HERE, "tools", "mutations.json")) as fh:
        return json.load(fh)


def make_scratch():
    d = tempfile.mkdtemp(prefix="vf-sens-", dir="/tmp")
    shutil.copytree(os.path.join(REPO, "explorerscript"), os.path.join(d, "explorerscript"),
                    ignore=shutil.ignore_patterns("__pycache__"))
    for extra in ("docs", "example"):
        if os.path.isdir(os.path.join(REPO, extra)):
            shutil.copytree(os.path.join(REPO, extra), os.path.join(d, extra))
    return d


def run_check(check, scratch, cases=None, seed="1", timeout=900):
    env = dict(os.environ, VERIF_REPO=scratch, VERIF_SEED=seed, VERIF_SHRINK_S="5", VERIF_NO_SHRINK="1")
    if cases:
        env["VERIF_CASES"] = str(cases)
    env["VERIF_EVIDENCE_DIR"] = os.path.join(scratch, "evidence")
    t0 = time.time()
    p = subprocess.run(["/venv/bin/python", "-m", "vf.run", check, "--tier", "quick"], cwd=HERE, env=env,
                       capture_output=True, text=True, timeout=timeout)
    return p.returncode, p.stdout + p.stderr, time.time() - t0


def main():
    ap = argparse.ArgumentParser()
    ap.add_argument("--only", default=None)
    ap.add_argument("--name", default=None)
    ap.add_argument("--patch", default=None)
    ap.add_argument("--check", default=None)
    ap.add_argument("-v", action="store_true")
    a = ap.parse_args()
    results = []
    if a.patch:
        scratch = make_scratch()
        try:
            subprocess.run(["git", "init", "-q"], cwd=scratch)
            p = subprocess.run(["git", "apply", "--whitespace=nowarn", os.path.abspath(a.patch)], cwd=scratch, capture_output=True, text=True)
            if p.returncode != 0:
                print("patch does not apply:", p.stderr)
                return 2
            for chk in a.check.split(","):
                rc, out, dt = run_check(chk, scratch)
                print(f"{chk}: exit={rc} {dt:.0f}s")
                if a.v or rc != 1:
                    print(out[-3000:])
        finally:
            shutil.rmtree(scratch, ignore_errors=True)
        return 0
    muts = load_mutations()
    only = set(a.only.split(",")) if a.only else None
    for m in muts:
        if only and m["check"] not in only:
            continue
        if a.name and a.name not in m["name"]:
            continue
        scratch = make_scratch()
        try:
            path = os.path.join(scratch, m["file"])
            src = open(path).read()
            if src.count(m["old"]) < 1:
                print(f"!! {m['name']}: pattern not found in {m['file']}")
                results.append((m, "nopattern"))
                continue
            src = src.replace(m["old"], m["new"], 1)
            if "then" in m:
                assert m["then"]["old"] in src, "second pattern not found"
                src = src.replace(m["then"]["old"], m["then"]["new"], 1)
            open(path, "w").write(src)
            rc, out, dt = run_check(m["check"], scratch, m.get("cases"))
            verdict = "CAUGHT" if rc == 1 and "VIOLATION" in out else ("HARNESS-ERR" if rc == 2 else "MISSED")
            print(f"{verdict:10s} {m['check']} {m['name']} ({dt:.0f}s)")
            if a.v or verdict != "CAUGHT":
                print(out[-2500:])
            results.append((m, verdict))
        finally:
            shutil.rmtree(scratch, ignore_errors=True)
    missed = [m["name"] for m, v in results if v != "CAUGHT"]
    print(f"{len(results) - len(missed)}/{len(results)} caught; missed: {missed}")
    return 0 if not missed else 1


if __name__ == "__main__":
    sys.exit(main())
