"""Canonical, comparable forms of results of the code under test."""
from __future__ import annotations

from vf import model, spec_tables as T


def canon_ops(routine_ops, jump_ops=T.JUMP_OPS):
    """[[(opcode, [params...])]] with every jump target replaced by ('J', routine index, op index)."""
    where = {}
    for r_i, r in enumerate(routine_ops):
        for i, op in enumerate(r):
            where.setdefault(op.offset, (r_i, i))
    out = []
    for r in routine_ops:
        row = []
        for op in r:
            params = [model.norm_real_param(p) for p in op.params]
            if op.op_code.name in jump_ops and params and isinstance(params[-1], int):
                params[-1] = ("J",) + where.get(params[-1], ("?", params[-1]))
            row.append((op.op_code.name, params))
        out.append(row)
    return out


def canon_compile_result(comp):
    marks = []
    sm = comp.source_map
    if sm is not None:
        for m in sm.get_position_marks__direct():
            marks.append(("d", m.name, m.x_relative, m.y_relative, m.x_offset, m.y_offset))
        for f, name, m in sm.get_position_marks__macros():
            marks.append(("m", name, m.name, m.x_relative, m.y_relative, m.x_offset, m.y_offset))
    return {
        "ops": canon_ops(comp.routine_ops),
        "table": model.real_routine_table(comp.routine_infos, comp.named_coroutines),
        "marks": marks,
    }


def first_diff(a, b, path="") -> str:
    if type(a) != type(b):
        return f"{path}: {a!r} vs {b!r}"
    if isinstance(a, dict):
        for k in a:
            if k not in b:
                return f"{path}.{k}: missing"
            d = first_diff(a[k], b[k], f"{path}.{k}")
            if d:
                return d
        return ""
    if isinstance(a, (list, tuple)):
        if len(a) != len(b):
            return f"{path}: length {len(a)} vs {len(b)}: {str(a)[:200]} vs {str(b)[:200]}"
        for i, (x, y) in enumerate(zip(a, b)):
            d = first_diff(x, y, f"{path}[{i}]")
            if d:
                return d
        return ""
    if a == b:
        return ""
    if isinstance(a, str) and len(a) + len(b) > 300:
        # long texts: show the neighbourhood of the first difference
        i = next((k for k, (x, y) in enumerate(zip(a, b)) if x != y), min(len(a), len(b)))
        lo = max(0, i - 120)
        return f"{path}: texts of {len(a)} / {len(b)} characters differ at index {i}: ...{a[lo:i + 120]!r} vs ...{b[lo:i + 120]!r}"
    return f"{path}: {a!r} vs {b!r}"
