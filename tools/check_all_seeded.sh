#!/bin/sh
# re-validates every change under seeded/ against the current checks (4 at a time) and rewrites seeded/README.md
# usage: sh tools/check_all_seeded.sh [name ...]
cd "$(dirname "$0")/.."
names=${*:-$(ls seeded | grep -v '\.md$')}
for n in $names; do
  prop=$(python3 -c "import json;print(json.load(open('seeded/$n/meta.json'))['property'])")
  checks=$(python3 -c "import json;print(','.join(sorted({k.split('@')[0] for k in json.load(open('seeded/$n/meta.json'))['checks_run']})))")
  echo "python3 tools/check_seeded.py $n seeded/$n --property $prop --checks ${checks:-$prop} --keep > /tmp/vf-seedlog-$n.txt 2>&1; grep -c '\"caught\": true' /tmp/vf-seedlog-$n.txt | sed 's/^/$n caught-by: /'"
done | xargs -P 4 -I{} sh -c '{}'
python3 tools/seeded_readme.py
