"""Token-level renderer for the vf AST (DESIGN.md 3.4).

render(program, chooser=None, layout=None) -> Rendered
   .text        the source text
   .toks        list of Tok (text, tags, line, col, end_line, end_col), zero-based positions
   .marks       dict tag -> (line, col)   position of the FIRST character of the first token carrying tag
   .ends        dict tag -> (line, col)   position of the LAST character of the last token carrying tag
A `chooser` (callable n -> int in [0, n)) decides alternative spellings; `layout` (same type)
decides separators.  With both None the canonical pretty layout is produced.
"""
from __future__ import annotations

from typing import Callable


class Tok:
    __slots__ = ("s", "tags", "pre", "ind", "line", "col", "eline", "ecol")

    def __init__(self, s: str, pre: str, ind: int, tags=()):
        self.s = s
        self.pre = pre  # canonical separator hint: "", " " or "\n"
        self.ind = ind
        self.tags = list(tags)
        self.line = self.col = self.eline = self.ecol = -1


class Rendered:
    def __init__(self):
        self.text = ""
        self.toks: list[Tok] = []
        self.marks: dict = {}
        self.ends: dict = {}
        self.dims: set[str] = set()  # which alternative-spelling dimensions were exercised


class Tape:
    """Cyclic tape of hypothesis-drawn integers used as a chooser."""

    def __init__(self, ints: list[int]):
        self.ints = list(ints) or [0]
        self.i = 0

    def __call__(self, n: int) -> int:
        if n <= 1:
            return 0
        v = self.ints[self.i % len(self.ints)]
        self.i += 1
        return v % n


def _zero(n: int) -> int:
    return 0


# --------------------------------------------------------------------------------------
# literal spellings
# --------------------------------------------------------------------------------------
def spell_int(v: int, ch: Callable[[int], int], dims: set) -> str:
    k = ch(6)
    neg = "-" if v < 0 else ""
    a = abs(v)
    if k == 0 or k == 5:
        return str(v)
    dims.add("int_base")
    if k == 1:
        return neg + ("0x" if ch(2) == 0 else "0X") + (format(a, "x") if ch(2) == 0 else format(a, "X"))
    if k == 2:
        return neg + ("0o" if ch(2) == 0 else "0O") + format(a, "o")
    if k == 3:
        return neg + ("0b" if ch(2) == 0 else "0B") + format(a, "b")
    return neg + "0x" + "0" * n_zeros(ch, dims) + format(a, "x")


def n_zeros(ch: Callable[[int], int], dims: set) -> int:
    """how many redundant zeros: 1-3; one time in 64 a number that crosses what fixed buffers and digit-count limits
    allow (40, 700, 5000). One tape read, and the same 1-3 as before for the other 63 (192 is a multiple of 3)."""
    t = ch(192)
    if t // 3 == 63:
        dims.add("many_zeros")
        return [40, 700, 5000][t % 3]
    return 1 + t % 3


def spell_decimal(txt: str, ch: Callable[[int], int], dims: set) -> str:
    """txt is a valid DECIMAL spelling; only leading zeros of the whole part may be changed."""
    k = ch(4)
    if k == 0:
        return txt
    neg = txt.startswith("-")
    body = txt[1:] if neg else txt
    whole, frac = body.split(".", 1)
    w = whole.lstrip("0")
    if k == 1:
        whole2 = w  # may be empty: ".5"
    elif k == 2:
        whole2 = "0" * n_zeros(ch, dims) + w
    else:
        whole2 = w or "0"
    if whole2 != whole:
        dims.add("decimal_zeros")
    return ("-" if neg else "") + whole2 + "." + frac


def spell_string(text: str, ch: Callable[[int], int], dims: set, allow_multiline: bool = True, indent: int = 0) -> str:
    """Spells a string VALUE as a literal the reference reader maps back to the same value.
    Only values that have an exact spelling are supported (see can_spell)."""
    q = "'" if ch(2) == 0 else '"'
    if q == '"':
        dims.add("quote_style")
    if "\n" in text and allow_multiline and ch(2) == 1 and can_spell_multiline(text):
        dims.add("multiline")
        q3 = q * 3
        if q3 in text:
            q3 = ('"' if q == "'" else "'") * 3
        pad = " " * (4 * (indent + 1))
        lines = text.split("\n")
        return q3 + "\n" + "\n".join(pad + ln for ln in lines) + "\n" + " " * (4 * indent) + q3
    out = []
    other = '"' if q == "'" else "'"
    for c in text:
        if c == q:
            out.append("\\" + q)
        elif c == other and ch(4) == 0:
            # an escape the chosen quote style does not need: \\' and \\" mean the quote character in BOTH styles
            dims.add("unneeded_quote_escape")
            out.append("\\" + other)
        elif c == "\n":
            out.append("\\n")
        else:
            out.append(c)
    return q + "".join(out) + q


def can_spell_single(text: str) -> bool:
    """Values with a backslash are outside this renderer's domain (C04 owns them)."""
    return "\\" not in text and "\r" not in text and "\f" not in text


def can_spell_multiline(text: str) -> bool:
    lines = text.split("\n")
    if any(ln != ln.lstrip(" ") for ln in lines):
        return False  # leading blanks interact with the dedent rules: C04's business
    if lines[0] == "" or lines[-1] == "" or any(ln.strip() == "" for ln in lines):
        return False
    return "'''" not in text and '"""' not in text and "\\" not in text


# --------------------------------------------------------------------------------------
# the renderer
# --------------------------------------------------------------------------------------
class Renderer:
    def __init__(self, chooser=None, legacy_ok: bool = True):
        self.ch = chooser or _zero
        self.toks: list[Tok] = []
        self.ind = 0
        self.dims: set[str] = set()
        self.legacy_ok = legacy_ok
        self._pending: list = []

    # -- emit
    def e(self, s: str, pre: str = " ", tags=()):
        t = Tok(s, pre, self.ind, list(tags) + self._pending)
        self._pending = []
        self.toks.append(t)
        return t

    def tag_next(self, tag):
        self._pending.append(tag)

    def tag_last(self, tag):
        self.toks[-1].tags.append(("end",) + tuple(tag))

    # -- values
    def value(self, v: dict, pre: str = " ", path=()):
        t = v["t"]
        if t == "int":
            self.e(spell_int(v["v"], self.ch, self.dims), pre)
        elif t == "const":
            self.e(v["v"], pre)
        elif t == "dec":
            self.e(spell_decimal(v["v"], self.ch, self.dims), pre)
        elif t == "str":
            self.e(spell_string(v["v"], self.ch, self.dims, indent=self.ind), pre)
        elif t == "lang":
            self.e("{", pre)
            self.ind += 1
            items = v["v"]
            for i, (lang, text) in enumerate(items):
                self.e(lang, "\n")
                self.e("=", "")
                self.e(spell_string(text, self.ch, self.dims, indent=self.ind), "")
                if i + 1 < len(items) or self.ch(2) == 1:
                    self.e(",", "")
            self.ind -= 1
            self.e("}", "\n")
        elif t == "pos":
            self.tag_next(("pos", path))
            self.e("Position", pre)
            self.e("<", "")
            # the name is a single-line string literal: quotes and line breaks in it are escaped
            self.e(spell_string(v["name"], self.ch, self.dims, allow_multiline=False), "")
            self.e(",", "")
            self.e(self.pos_arg(v["x"], v["xh"]), " ")
            self.e(",", "")
            self.e(self.pos_arg(v["y"], v["yh"]), " ")
            self.e(">", "")
            self.tag_last(("pos", path))
        else:
            raise ValueError(f"unknown value {v!r}")

    def pos_arg(self, n: int, half: bool) -> str:
        k = self.ch(4)

        def whole():
            # DECIMAL: '-'? DIGIT+ '.' DIGIT+ | '-'? '.' DIGIT+ - the whole part may carry leading zeros or be missing
            z = self.ch(4)
            sign, digits = ("-", str(-n)) if n < 0 else ("", str(n))
            if n == 0 and self.ch(4) == 0:
                sign = "-"  # negative zero: -0.5 / -.5 / -00.0 are spellings of the same coordinates as 0.5 / 0.0
                self.dims.add("pos_negative_zero")
            if z == 1:
                self.dims.add("pos_decimal_zeros")
                return sign + "0" * n_zeros(self.ch, self.dims) + digits
            if z == 2 and n == 0:
                self.dims.add("pos_decimal_zeros")
                return sign  # ".5" or "-.5"
            return sign + digits

        if half:
            return f"{whole()}.5" + ("0" * k if k < 3 else "")
        if k == 1:
            return f"{whole()}.0"
        if k == 2:
            return spell_int(n, self.ch, self.dims)
        return str(n)

    def arglist(self, args: list, path=()):
        self.e("(", "")
        for i, a in enumerate(args):
            self.value(a, "" if i == 0 else " ", path + (i,))
            if i + 1 < len(args):
                self.e(",", "")
            elif self.ch(5) == 4:
                self.dims.add("trailing_comma")
                self.e(",", "")
        self.e(")", "")

    def operation(self, op: dict, pre: str, path=()):
        self.e(op["name"], pre)
        if op.get("ctx"):
            c = op["ctx"]
            self.e("<", "")
            self.e(c["type"], "")
            self.value(c["val"], " ")
            self.e(">", "")
        self.arglist(op["args"], path)

    # -- conditions / headers
    def cond(self, c: dict, path):
        self.tag_next(("cond", path))
        k = c["c"]
        if k == "op":
            self.value(c["l"], "")
            self.e(c["op"], " ")
            if c.get("value_of"):
                self.e("value", " ")
                self.e("(", "")
                self.value(c["r"], "")
                self.e(")", "")
            else:
                self.value(c["r"], " ")
        elif k == "bit":
            first = True
            if c.get("not"):
                self.e("not", "")
                first = False
            self.value(c["var"], "" if first else " ")
            self.e("[", "")
            self.e(spell_int(c["i"], self.ch, self.dims), "")
            self.e("]", "")
        elif k == "neg":
            if c.get("not"):
                self.e("not", "")
                self.e(c["kw"], " ")
            else:
                self.e(c["kw"], "")
        elif k == "scn":
            self.e("scn", "")
            self.e("(", "")
            self.value(c["var"], "")
            self.e(")", "")
            self.e(c["op"], " ")
            self.e("[", " ")
            self.e(spell_int(c["a"], self.ch, self.dims), "")
            self.e(",", "")
            self.e(spell_int(c["b"], self.ch, self.dims), " ")
            self.e("]", "")
        elif k == "opn":
            self.operation(c["op"], "", path)
        else:
            raise ValueError(k)
        self.tag_last(("cond", path))

    def cond_list(self, neg: bool, conds: list, path):
        if neg:
            self.e("not", " ")
        self.e("(", " ")
        for j, c in enumerate(conds):
            if j:
                self.e("||", " ")
                self.cond_pre_space(c, path + ("c", j))
            else:
                self.cond(c, path + ("c", j))
        self.e(")", "")

    def block(self, stmts: list, path):
        self.e("{", " ")
        self.ind += 1
        for i, s in enumerate(stmts):
            self.stmt(s, path + (i,))
        self.ind -= 1
        self.e("}", "\n")

    # -- statements
    def simple(self, s: dict, path, pre="\n"):
        self.tag_next(("stmt", path))
        k = s["k"]
        if k == "op":
            self.operation(s, pre, path)
        elif k == "label":
            sym = "@"
            if self.ch(4) == 3:
                sym = "§"
                self.dims.add("label_sigil")
            self.e(sym, pre)
            self.e(s["name"], "")
        elif k == "jump":
            self.e("jump", pre)
            self.e("@", " ")
            self.e(s["label"], "")
        elif k == "call":
            self.e("call", pre)
            self.e("@", " ")
            self.e(s["label"], "")
        elif k == "ctl":
            self.e(s["v"], pre)
        elif k == "assign":
            self.assign(s, pre)
        else:
            raise ValueError(k)
        self.e(";", "")
        self.tag_last(("stmt", path))

    def assign(self, s: dict, pre):
        f = s["form"]
        if f == "regular":
            self.value(s["target"], pre)
            if s.get("bit") is not None:
                self.e("[", "")
                self.e(spell_int(s["bit"], self.ch, self.dims), "")
                self.e("]", "")
            self.e(s["op"], " ")
            if s.get("value_of"):
                self.e("value", " ")
                self.e("(", "")
                self.value(s["val"], "")
                self.e(")", "")
            else:
                self.value(s["val"], " ")
        elif f in ("clear", "init"):
            self.e(f, pre)
            self.value(s["target"], " ")
        elif f == "reset_dr":
            self.e("reset", pre)
            self.e("dungeon_result", " ")
        elif f == "reset_scn":
            self.e("reset", pre)
            self.e("scn", " ")
            self.e("(", "")
            self.value(s["target"], "")
            self.e(")", "")
        elif f == "advlog":
            self.e("adventure_log", pre)
            self.e("=", " ")
            self.value(s["val"], " ")
        elif f == "dmode":
            self.e("dungeon_mode", pre)
            self.e("(", "")
            self.value(s["target"], "")
            self.e(")", "")
            self.e("=", " ")
            self.value(s["val"], " ")
        elif f == "scn":
            self.value(s["target"], pre)
            self.e("=", " ")
            self.e("scn", " ")
            self.e("[", "")
            self.e(spell_int(s["a"], self.ch, self.dims), "")
            self.e(",", "")
            self.e(spell_int(s["b"], self.ch, self.dims), " ")
            self.e("]", "")
        else:
            raise ValueError(f)

    def stmt(self, s: dict, path):
        k = s["k"]
        if k in ("op", "label", "jump", "call", "ctl", "assign"):
            return self.simple(s, path)
        self.tag_next(("stmt", path))
        if k == "with":
            self.e("with", "\n")
            self.e("(", " ")
            self.e(s["type"], "")
            self.value(s["val"], " ")
            self.e(")", "")
            self.e("{", " ")
            self.ind += 1
            self.simple(s["stmt"], path + ("w",))
            self.ind -= 1
            self.e("}", "\n")
        elif k == "if":
            self.e("if", "\n")
            self.cond_list(s.get("not", False), s["conds"], path)
            self.block(s["body"], path + ("b",))
            for j, el in enumerate(s.get("elifs", [])):
                self.tag_next(("elif", path, j))
                self.e("elseif", " ")
                self.cond_list(el.get("not", False), el["conds"], path + ("e", j))
                self.block(el["body"], path + ("e", j, "b"))
            if s.get("else") is not None:
                self.tag_next(("else", path))
                self.e("else", " ")
                self.block(s["else"], path + ("x",))
        elif k == "switch":
            self.e("switch", "\n")
            self.e("(", " ")
            self.tag_next(("swhead", path))
            h = s["head"]
            hk = h["h"]
            if hk == "var":
                self.value(h["v"], "")
            elif hk == "scn":
                self.e("scn", "")
                self.e("(", "")
                self.value(h["v"], "")
                self.e(")", "")
                self.e("[", "")
                self.e(spell_int(h["i"], self.ch, self.dims), "")
                self.e("]", "")
            elif hk == "random":
                self.e("random", "")
                self.e("(", "")
                self.value(h["v"], "")
                self.e(")", "")
            elif hk == "dmode":
                self.e("dungeon_mode", "")
                self.e("(", "")
                self.value(h["v"], "")
                self.e(")", "")
            elif hk == "sector":
                self.e("sector", "")
                self.e("(", "")
                self.e(")", "")
            elif hk == "op":
                self.operation(h["op"], "", path + ("h",))
            else:
                raise ValueError(hk)
            self.e(")", "")
            self.e("{", " ")
            self.ind += 1
            for j, c in enumerate(s["cases"]):
                self.tag_next(("case", path, j))
                if c.get("default"):
                    self.e("default", "\n")
                else:
                    self.e("case", "\n")
                    self.tag_next(("casehead", path, j))
                    self.case_head(c["head"], path + ("k", j))
                self.e(":", "")
                self.ind += 1
                for i, st_ in enumerate(c["body"]):
                    self.stmt(st_, path + ("k", j, i))
                self.ind -= 1
            self.ind -= 1
            self.e("}", "\n")
        elif k == "msgswitch":
            self.e("message_SwitchTalk" if s["kind"] == "talk" else "message_SwitchMonologue", "\n")
            self.e("(", " ")
            self.value(s["v"], "")
            self.e(")", "")
            self.e("{", " ")
            self.ind += 1
            for j, c in enumerate(s["cases"]):
                self.tag_next(("mcase", path, j))
                self.e("case", "\n")
                self.tag_next(("mcasehead", path, j))
                self.value(c["v"], " ")
                self.e(":", "")
                self.ind += 1
                self.value(c["s"], "\n")
                self.ind -= 1
            if s.get("default") is not None:
                self.tag_next(("mdefault", path))
                self.e("default", "\n")
                self.e(":", "")
                self.ind += 1
                self.value(s["default"], "\n")
                self.ind -= 1
            self.ind -= 1
            self.e("}", "\n")
        elif k == "forever":
            self.e("forever", "\n")
            self.block(s["body"], path + ("b",))
        elif k == "while":
            self.e("while", "\n")
            if s.get("not"):
                self.e("not", " ")
            self.e("(", " ")
            self.cond(s["cond"], path + ("c", 0))
            self.e(")", "")
            self.block(s["body"], path + ("b",))
        elif k == "for":
            self.e("for", "\n")
            self.e("(", " ")
            self.simple(s["init"], path + ("i",), pre="")
            self.cond_pre_space(s["cond"], path + ("c", 0))
            self.e(";", "")
            self.simple(s["inc"], path + ("n",), pre=" ")
            self.e(")", "")
            self.block(s["body"], path + ("b",))
        elif k == "mcall":
            self.e("~" + s["name"], "\n")
            self.arglist(s["args"], path)
            self.e(";", "")
        else:
            raise ValueError(k)
        self.tag_last(("stmt", path))

    def cond_pre_space(self, c, path):
        n = len(self.toks)
        self.cond(c, path)
        if n < len(self.toks):
            self.toks[n].pre = " "

    def case_head(self, h: dict, path):
        ch = h["ch"]
        if ch == "val":
            self.value(h["v"], " ")
        elif ch == "op":
            self.e(h["op"], " ")
            if h.get("value_of"):
                self.e("value", " ")
                self.e("(", "")
                self.value(h["v"], "")
                self.e(")", "")
            else:
                self.value(h["v"], " ")
        elif ch == "menu":
            self.e("menu", " ")
            self.e("(", "")
            self.value(h["s"], "")
            self.e(")", "")
        elif ch == "menu2":
            self.e("menu2", " ")
            self.e("(", "")
            self.value(h["v"], "")
            self.e(")", "")
        else:
            raise ValueError(ch)

    # -- top level
    def routine(self, r: dict, idx: int):
        self.tag_next(("routine", idx))
        if r["kind"] == "coro":
            self.e("coro", "\n")
            self.e(r["name"], " ")
        else:
            self.e("def", "\n")
            self.e(spell_int(r["id"], self.ch, self.dims) if r["id"] >= 0 else str(r["id"]), " ")
            tgt = r.get("target")
            if tgt is not None:
                form = self.ch(4) if self.legacy_ok else 0
                if form == 0:
                    self.e("for", " ")
                    self.e(tgt["type"], " ")
                    self.value(tgt["val"], " ")
                elif form == 1:
                    self.dims.add("legacy_target")
                    self.e("for_" + tgt["type"], " ")
                    self.e("(", "")
                    self.value(tgt["val"], "")
                    self.e(")", "")
                elif form == 2:
                    self.dims.add("paren_target")
                    self.e("for", " ")
                    self.e(tgt["type"], " ")
                    self.e("(", " ")
                    self.value(tgt["val"], "")
                    self.e(")", "")
                else:
                    self.dims.add("legacy_target")
                    self.e("for_" + tgt["type"], " ")
                    self.value(tgt["val"], " ")
        self.e("{", " ")
        self.ind += 1
        if r.get("alias"):
            self.e("alias", "\n")
            self.e("previous", " ")
            self.e(";", "")
        else:
            for i, s in enumerate(r["body"]):
                self.stmt(s, ("r", idx, i))
        self.ind -= 1
        self.e("}", "\n")

    def macro(self, m: dict, idx: int):
        self.tag_next(("macro", idx))
        self.e("macro", "\n")
        self.e(m["name"], " ")
        self.e("(", "")
        for i, p in enumerate(m["params"]):
            self.e(p, "" if i == 0 else " ")
            if i + 1 < len(m["params"]):
                self.e(",", "")
        self.e(")", "")
        self.e("{", " ")
        self.ind += 1
        for i, s in enumerate(m["body"]):
            self.stmt(s, ("m", idx, i))
        self.ind -= 1
        self.e("}", "\n")

    def program(self, p: dict):
        for imp in p.get("imports", []):
            self.e("import", "\n")
            q = '"' if self.ch(2) == 0 else "'"  # the path is a STRING_LITERAL: either quote style
            self.e(q + imp + q, " ")
            self.e(";", "")
        # macros and routines may be interleaved: p["order"] lists ("m", i) / ("r", i)
        order = p.get("order")
        if order is None:
            order = [["m", i] for i in range(len(p.get("macros", [])))] + [["r", i] for i in range(len(p["routines"]))]
        for kind, i in order:
            if kind == "m":
                self.macro(p["macros"][i], i)
            else:
                self.routine(p["routines"][i], i)


_WORD_END = set("abcdefghijklmnopqrstuvwxyzABCDEFGHIJKLMNOPQRSTUVWXYZ0123456789_.")
_WORD_START = set("abcdefghijklmnopqrstuvwxyzABCDEFGHIJKLMNOPQRSTUVWXYZ0123456789_.$~-")
_SEPS = [" ", "\n", "  ", "\t", " \n  ", "\n\n", " /* c */ ", "/**/", " // note\n", "//x\n    ", " \\\n ", "/* a\n b */"]
# the other line-end conventions: CR LF, a bare CR (also as the end of a line comment). Only for texts that are handed to
# compile() as strings: a file read from disk goes through Python's universal newlines, where a CR is a line break for the
# line counter too, which the position records of this renderer do not model.
_SEPS_CR = ["\r\n", " \r ", " // note\r\n", " // note\r", "\r\n\r\n"]


# comments that look like something else: meta-attribute lines (only the run of //?: lines at the very TOP of a file is a
# header; anywhere else they are comments), commented-out code
_SEPS_LOOKALIKE = ["\n//?: is-ssb-script: true\n", " //?: is-ssb-script: 1\n", "\n    //?: key: value\n", " /* //?: is-ssb-script: true */ ",
                   "\n// def 0 { end; }\n", "/*\n//?: is-ssb-script: true\n*/", "\n//?:\n"]


def needs_sep(a: str, b: str) -> bool:
    if not a or not b:
        return False
    if a[-1] in _WORD_END and b[0] in _WORD_START:
        return True
    # operator characters that would fuse into another token
    fuse = {("<", "="), (">", "="), ("=", "="), ("&", "<"), ("<", "<"), ("!", "="), ("-", "="), ("+", "="), ("*", "="),
            ("/", "="), ("/", "/"), ("/", "*"), ("|", "|"), ("*", "/")}
    return (a[-1], b[0]) in fuse


def assemble(toks: list[Tok], layout=None, dims: set | None = None, cr: bool = False) -> tuple[str, dict, dict]:
    """Glue tokens with separators; fills positions. Returns (text, marks, ends)."""
    out: list[str] = []
    line, col = 0, 0
    marks: dict = {}
    ends: dict = {}
    prev = ""
    used_layout = False
    # one layout tape in eight stands for minified text: no blank, line break or comment that the token rules do not
    # require (a function of the tape's content, so that no choice moves)
    compact = layout is not None and sum(getattr(layout, "ints", [1])) % 8 == 0
    if compact and dims is not None:
        dims.add("minified")
    for i, t in enumerate(toks):
        if compact:
            sep = " " if needs_sep(prev, t.s) else ""
        elif layout is None:
            if i == 0:
                sep = ""
            elif t.pre == "\n":
                sep = "\n" + " " * (4 * t.ind)
            else:
                sep = t.pre
            if sep == "" and needs_sep(prev, t.s):
                sep = " "
        else:
            k = layout(len(_SEPS) + 7)
            if k < len(_SEPS):
                sep = _SEPS[k]
                used_layout = True
                if cr and layout(4) == 0:
                    sep = _SEPS_CR[layout(len(_SEPS_CR))]
                    if dims is not None:
                        dims.add("cr_line_ends")
            elif k < len(_SEPS) + 3:
                sep = "\n" + " " * (4 * t.ind) if t.pre == "\n" else t.pre
            elif k == len(_SEPS) + 6 and i > 0:
                sep = _SEPS_LOOKALIKE[layout(len(_SEPS_LOOKALIKE))]
                used_layout = True
                if dims is not None:
                    dims.add("lookalike_comment")
            else:
                sep = ""
            if i == 0 and sep.strip() == "" and "\n" not in sep:
                sep = sep
            if sep == "" and needs_sep(prev, t.s):
                sep = " "
        for c in sep:
            if c == "\n":
                line += 1
                col = 0
            else:
                col += 1
        out.append(sep)
        t.line, t.col = line, col
        for c in t.s:
            if c == "\n":
                line += 1
                col = 0
            else:
                col += 1
        # end position = position of the last character
        if "\n" in t.s:
            t.eline = line
            t.ecol = col - 1
        else:
            t.eline, t.ecol = t.line, t.col + len(t.s) - 1
        out.append(t.s)
        for tag in t.tags:
            if tag and tag[0] == "end":
                ends[tuple(tag[1:])] = (t.eline, t.ecol)
            else:
                marks.setdefault(tuple(tag), (t.line, t.col))
        prev = t.s
    if dims is not None and used_layout:
        dims.add("layout")
    return "".join(out) + "\n", marks, ends


def render(program: dict, chooser=None, layout=None, legacy_ok: bool = True, cr: bool = False) -> Rendered:
    r = Renderer(chooser, legacy_ok)
    r.program(program)
    res = Rendered()
    res.toks = r.toks
    res.dims = r.dims
    res.text, res.marks, res.ends = assemble(r.toks, layout, res.dims, cr)
    return res
