"""C15 - the compile CLI prints what the decompile CLI (and the docs) expect (DESIGN.md 4, C15)."""
from __future__ import annotations

import contextlib
import io
import json
import os
import runpy
import shutil
import subprocess
import sys
import tempfile

from hypothesis import strategies as st

from vf import decomp, gen_prog, gen_ssb, model, parse, render, spec_tables as T
from vf.core import Failure, call_guard
from vf.cut import compile_text, settings_dict

ID = "C15"
LEVEL = "translation_validation"
RULE = (
    "(1) generated programs (weighted to programs in which the compiler drops ops, i.e. offset gaps before jump "
    "targets) are written to a scratch directory with a settings file and compiled by the compile command; the JSON on "
    "stdout must have the documented structure (settings, routines with type / name / target_id / ops, ops with opcode "
    "and params, every parameter an int or a typed object), every jump parameter must equal the 1-based position of "
    "its target op counted over all routines (target identity taken from the API result for the same source), and "
    "feeding the JSON to the decompile command must exit 0 and print a text that - read by the reference semantics - "
    "behaves like the source on every path; (2) documents built directly from docs/cli_api_usage.rst (every routine "
    "type incl. COROUTINE, int and string targets, every argument type exactly as documented, POSITION_MARK x/y as "
    "numbers and as strings) must be accepted by the decompile command and yield text that compiles; (3) invalid "
    "sources / documents must give a non-zero exit status. Both commands run in-process through runpy for volume and "
    "as real subprocesses (python -m ...) for a sample. Non-trivial = a compiled program with >= 1 dropped op before a "
    "jump target, or a document with a coroutine / position mark / language string; distinct by content hash."
    " The compile command's child processes run with PYTHONIOENCODING = cp1252 / ascii / latin-1 (function of the source file); its document must stay readable as UTF-8."
)
ASSUMPTIONS = [
    "the documented JSON structure is the one of docs/cli_api_usage.rst; 'indices start at 1'",
    "behavioural comparison of the round trip is skipped when the decompile command prints the marked SsbScript fallback (C06) or a text hit by a C02 known finding",
]
CASES = {"quick": 2400, "thorough": 20000}
N_SUBPROCESS = {"quick": 24, "thorough": 400}

_gaps = st.lists(st.integers(0, 0), min_size=1, max_size=1)


def strategy(tier):
    prog = st.fixed_dictionaries({"kind": st.just("program"), "prog": gen_prog.programs(max_stmts=25)})
    doc = st.fixed_dictionaries({"kind": st.just("document"), "doc": documents()})
    bad = st.fixed_dictionaries({"kind": st.just("invalid"), "which": st.integers(0, 9), "prog": gen_prog.programs(max_stmts=6)})
    from vf.core import weighted
    from vf.checks import c03

    # the compile command also takes SsbScript sources (marker line): ops numbered from 0, nothing dropped
    ssbs = st.fixed_dictionaries({"kind": st.just("ssbs_source"), "src": c03.ssbs_programs()})
    return weighted((6, prog), (4, doc), (2, bad), (1, ssbs))


@st.composite
def documents(draw):
    """SSB JSON documents following docs/cli_api_usage.rst"""
    g = gen_ssb.SG(draw)
    coro = draw(st.booleans())
    routines = []
    n = draw(st.integers(1, 3))
    for r_i in range(n):
        ops = []
        for _ in range(draw(st.integers(1, 5))):
            g.n += 1
            params = []
            for _ in range(draw(st.integers(0, 3))):
                k = draw(st.integers(0, 6))
                if k == 0:
                    params.append(draw(st.integers(-100, 1000)))
                elif k == 1:
                    params.append({"type": "FIXED_POINT", "value": draw(st.sampled_from(["123.456", "1.5", "-0.25", "0.0"]))})
                elif k == 2:
                    params.append({"type": "CONSTANT", "value": draw(st.sampled_from(["LEVEL_XYZ", "ACTOR_PLAYER", "$SCENARIO_MAIN"]))})
                elif k == 3:
                    params.append({"type": "CONST_STRING", "value": g.text()})
                elif k == 4:
                    params.append({"type": "LANG_STRING", "value": {"english": g.text(), "german": "Hallo Welt!"}})
                else:
                    xy = draw(st.sampled_from([(10, 20), ("10", "10.5"), (3, "4.5"), ("7.5", 0)]))
                    params.append({"type": "POSITION_MARK", "value": {"name": f"m{g.n}", "x": xy[0], "y": xy[1]}})
            ops.append({"opcode": f"op_{g.n}", "params": params})
        ops.append({"opcode": draw(st.sampled_from(["Return", "End", "Hold"])), "params": []})
        if coro:
            routines.append({"type": "COROUTINE", "name": f"CORO_{r_i}", "ops": ops})
        else:
            t = draw(st.sampled_from(["GENERIC", "ACTOR", "OBJECT", "PERFORMER"]))
            r = {"type": t, "ops": ops}
            if t != "GENERIC":
                r["target_id"] = draw(st.one_of(st.integers(0, 300), st.sampled_from(["ACTOR_PLAYER", "OBJECT_X_12"])))
            routines.append(r)
    d = settings_dict()
    d["routines"] = routines
    return d


# --------------------------------------------------------------------------------------
def run_cli_inprocess(module, argv):
    """-> (exit status, stdout, stderr text)"""
    out, err = io.StringIO(), io.StringIO()
    old_argv = sys.argv
    sys.argv = [module] + argv
    status = 0
    try:
        with contextlib.redirect_stdout(out), contextlib.redirect_stderr(err):
            try:
                runpy.run_module(module, run_name="__main__", alter_sys=False)
            except SystemExit as e:
                status = e.code if isinstance(e.code, int) else (0 if e.code is None else 1)
            except Exception as e:  # noqa - an uncaught exception makes python exit with status 1
                status = 1
                err.write(f"{type(e).__name__}: {e}")
    finally:
        sys.argv = old_argv
    return status, out.getvalue(), err.getvalue()


def run_cli_subprocess(module, argv, cwd):
    from vf.core import REPO

    env = dict(os.environ, PYTHONPATH=str(REPO))
    # environment: the compile command's document goes to a pipe or a file whose encoding is the platform's (a Windows
    # code page, ASCII under LANG=C ...), and the decompile command reads the document as UTF-8. The encoding of the
    # child's stdout is a function of the source file's content.
    enc = None
    if module.endswith("cli.compile") and argv and os.path.isfile(argv[-1]):
        import zlib

        with open(argv[-1], "rb") as fh:
            enc = ["cp1252", "ascii", "latin-1", "cp1252", "ascii", "latin-1", "cp1252", None][zlib.crc32(fh.read()) % 8]
    if enc:
        env["PYTHONIOENCODING"] = enc
    p = subprocess.run([sys.executable, "-m", module] + argv, capture_output=True, env=env, cwd=cwd, timeout=300)
    err = p.stderr.decode("utf-8", "replace")
    try:
        out = p.stdout.decode("utf-8")
    except UnicodeDecodeError:
        out = f"<<the document printed under PYTHONIOENCODING={enc} is not UTF-8, which is what the decompile command reads>>"
    return p.returncode, out, err


def check_structure(doc):
    if not isinstance(doc, dict) or "settings" not in doc or not isinstance(doc.get("routines"), list):
        return "top level needs 'settings' and a list 'routines'"
    for r in doc["routines"]:
        if not isinstance(r, dict) or r.get("type") not in ("COROUTINE", "GENERIC", "ACTOR", "OBJECT", "PERFORMER"):
            return f"routine type {r.get('type') if isinstance(r, dict) else r!r}"
        if r["type"] == "COROUTINE" and not isinstance(r.get("name"), str):
            return "coroutine without name"
        if r["type"] in ("ACTOR", "OBJECT", "PERFORMER") and not isinstance(r.get("target_id"), (int, str)):
            return f"{r['type']} routine without int/str target_id: {r.get('target_id')!r}"
        if not isinstance(r.get("ops"), list):
            return "routine without ops list"
        for op in r["ops"]:
            if not isinstance(op, dict) or not isinstance(op.get("opcode"), str) or not isinstance(op.get("params"), list):
                return f"malformed op {op!r}"
            for prm in op["params"]:
                if isinstance(prm, bool) or not isinstance(prm, (int, dict)):
                    return f"parameter {prm!r}"
                if isinstance(prm, dict) and (prm.get("type") not in ("FIXED_POINT", "CONSTANT", "CONST_STRING", "LANG_STRING", "POSITION_MARK") or "value" not in prm):
                    return f"typed parameter {prm!r}"
    return None


def evaluate_program(prog, stt, runner, workdir):
    fails = []
    # every routine gets a terminator so that the decompile half stays inside C02's domain
    import copy

    prog = copy.deepcopy(prog)
    for r in prog["routines"]:
        if not r.get("alias") and not (r["body"] and r["body"][-1]["k"] == "ctl" and r["body"][-1]["v"] in ("return", "end", "hold")):
            r["body"].append({"k": "ctl", "v": "return"})
    text = render.render(prog).text
    api, exc = call_guard(lambda: compile_text(text, os.path.join(workdir, "src.exps")))
    if exc is not None:
        stt.count("rejected_by_compiler")
        return fails
    if any(i is None for i in api.routine_infos):
        return fails
    try:
        gs, table_s = model.source_graph(prog)
        gs.reachable_stats()
    except model.OpFreeCycle:
        stt.count("discard_op_free_cycle")
        return fails
    src = os.path.join(workdir, "src.exps")
    with open(src, "w", encoding="utf-8") as fh:
        fh.write(text)
    settings = os.path.join(workdir, "settings.json")
    with open(settings, "w") as fh:
        json.dump(settings_dict(), fh)
    status, out, err = runner("explorerscript.cli.compile", [src, "--settings", settings])
    if status != 0:
        fails.append(Failure("compile_cli_failed", f"exit {status}, stderr {err[-300:]!r}\n{text}"))
        return fails
    try:
        doc = json.loads(out)
    except ValueError as e:
        fails.append(Failure("compile_cli_not_json", f"{e}\n{out[:300]}"))
        return fails
    bad = check_structure(doc)
    if bad:
        fails.append(Failure("compile_cli_structure", f"{bad}\n{text}"))
        return fails
    # jump parameters: 1-based position of the target op over all routines
    position = {}
    k = 0
    for r in api.routine_ops:
        for op in r:
            k += 1
            position[op.offset] = k
    offsets = sorted(position)
    gaps = any(b - a > 1 for a, b in zip(offsets, offsets[1:]))
    flat_api = [op for r in api.routine_ops for op in r]
    flat_doc = [op for r in doc["routines"] for op in r["ops"]]
    if len(flat_api) != len(flat_doc):
        fails.append(Failure("compile_cli_op_count", f"{len(flat_doc)} ops printed, API has {len(flat_api)}"))
        return fails
    njump = 0
    gap_before_target = False
    for a, d in zip(flat_api, flat_doc):
        if a.op_code.name != d["opcode"]:
            fails.append(Failure("compile_cli_opcode", f"{d['opcode']} vs {a.op_code.name}"))
            return fails
        if a.op_code.name in T.JUMP_OPS:
            njump += 1
            want = position[a.params[-1]]
            if want != a.params[-1]:
                gap_before_target = True
            got = d["params"][-1] if d["params"] else None
            if got != want:
                fails.append(Failure("jump_param_is_not_position", f"{a.op_code.name}: printed jump parameter {got!r}, the target is op number {want} (internal offset {a.params[-1]})\n{text}\n{json.dumps(doc)[:1500]}"))
                break
    if gap_before_target:
        stt.mark_nontrivial(prog)
        stt.count("dropped_op_before_jump_target")
    stt.add("programs")
    # decompile command on the printed JSON
    jpath = os.path.join(workdir, "model.json")
    with open(jpath, "w", encoding="utf-8") as fh:
        fh.write(out)
    status, out2, err2 = runner("explorerscript.cli.decompile", [jpath])
    if status != 0:
        fails.append(Failure("decompile_cli_rejects_compile_output", f"exit {status}, stderr {err2[-400:]!r}\n{text}"))
        return fails
    if fails:
        return fails
    if out2.lstrip("\n").startswith(decomp.MARKER):
        stt.count("roundtrip_fallback_(C06)")
        return fails
    ast, exc = call_guard(lambda: parse.parse_program(out2))
    if exc is not None:
        stt.count("roundtrip_unparsable_(C02)")
        return fails
    c = gen_ssb.case_from_compiled(api)
    if c is not None and (gen_ssb.foreign_targets_not_locally_reachable(c) or gen_ssb.call_target_only_reachable_by_call(c)
                          or gen_ssb.degenerate_branch_in_loop(c) or gen_ssb.call_on_cycle(c) or gen_ssb.case_jumps_backward_or_into_chain(c) or gen_ssb.case_op_is_jump_target(c) or gen_ssb.inexpressible_case_ops(c)
                          or not gen_ssb.well_formed(c)[0]):
        stt.excluded_known += 1
        return fails
    try:
        g2, table2 = model.source_graph(ast)
        from vf.checks.c02 import label_eq

        ok, msg, pairs = model.equivalent(gs, g2, label_eq)
    except (model.SemanticsError, model.OpFreeCycle) as e:
        stt.count("roundtrip_meaningless_(C02)")
        return fails
    stt.add("disagreements_checked", 0)
    stt.add("paths_pairs", pairs)
    if not ok:
        fails.append(Failure("roundtrip_behaviour", f"compile CLI | decompile CLI does not behave like the source: {msg}\n--- source:\n{text}\n--- round trip:\n{out2}"))
    if table2 != table_s:
        fails.append(Failure("roundtrip_routine_table", f"{table_s} vs {table2}"))
    if len(stt.samples) < 2 and gap_before_target and not fails:
        stt.sample({"source": text[:800], "compile_stdout": out[:600], "decompile_stdout": out2[:800]})
    return fails


def evaluate_document(doc, stt, runner, workdir):
    fails = []
    jpath = os.path.join(workdir, "doc.json")
    with open(jpath, "w", encoding="utf-8") as fh:
        json.dump(doc, fh)
    feats = set()
    for r in doc["routines"]:
        if r["type"] == "COROUTINE":
            feats.add("coroutine")
        if isinstance(r.get("target_id"), str):
            feats.add("string_target")
        for op in r["ops"]:
            for p in op["params"]:
                if isinstance(p, dict):
                    feats.add(p["type"])
                    if p["type"] == "POSITION_MARK" and (isinstance(p["value"]["x"], int) or isinstance(p["value"]["y"], int)):
                        feats.add("position_mark_number")
    for f_ in feats:
        stt.count("doc:" + f_)
    if feats & {"coroutine", "POSITION_MARK", "LANG_STRING"}:
        stt.mark_nontrivial(doc)
    status, out, err = runner("explorerscript.cli.decompile", [jpath])
    if status != 0:
        key = "coroutine" if "coroutine" in feats and "Unknown coroutine" in err else ("position_mark_number" if "position_mark_number" in feats and "split" in err else "other")
        fails.append(Failure(f"documented_document_rejected:{key}", f"exit {status}, stderr {err[-300:]!r}\n{json.dumps(doc)[:1500]}"))
        return fails
    comp, exc = call_guard(lambda: compile_text(out))
    if exc is not None:
        from vf.checks.c04 import unspellable

        strs = [p["value"] if p["type"] == "CONST_STRING" else None for r in doc["routines"] for op in r["ops"] for p in op["params"] if isinstance(p, dict)]
        if any(s and unspellable(s) for s in strs):
            stt.excluded_known += 1
            return fails
        fails.append(Failure("decompiled_document_does_not_compile", f"{exc[1]}\n{out}"))
        return fails
    names = [r.get("name") for r in doc["routines"] if r["type"] == "COROUTINE"]
    got = [n for n in (comp.named_coroutines or []) if isinstance(n, str)]
    if names != got:
        fails.append(Failure("coroutine_names", f"{names} vs {got}"))
    nops = sum(len(r["ops"]) for r in doc["routines"])
    nops2 = sum(len(r) for r in comp.routine_ops)
    if nops != nops2:
        fails.append(Failure("document_op_count", f"{nops} ops in the document, {nops2} after decompile+compile\n{out}"))
    return fails


def evaluate_invalid(which, prog, stt, runner, workdir):
    fails = []
    settings = os.path.join(workdir, "settings.json")
    with open(settings, "w") as fh:
        json.dump(settings_dict(), fh)
    text = render.render(prog).text
    src = os.path.join(workdir, "bad.exps")
    jpath = os.path.join(workdir, "bad.json")
    if which < 4:
        bad = [text + "\ndef 99 { break; }\n", text[: max(1, len(text) // 2)] + " {{{", "def 0 { jump @nowhere; }\n", text + "\n~undefined_macro();"][which]
        with open(src, "w", encoding="utf-8") as fh:
            fh.write(bad)
        status, out, err = runner("explorerscript.cli.compile", [src, "--settings", settings])
        what = f"compile:invalid_source_{which}"
    elif which == 4:
        status, out, err = runner("explorerscript.cli.compile", [os.path.join(workdir, "missing.exps"), "--settings", settings])
        what = "compile:missing_source"
    elif which == 5:
        with open(src, "w") as fh:
            fh.write(text)
        with open(settings, "w") as fh:
            json.dump({"settings": {}}, fh)
        status, out, err = runner("explorerscript.cli.compile", [src, "--settings", settings])
        what = "compile:bad_settings"
    else:
        d = settings_dict()
        d["routines"] = [{"type": "GENERIC", "ops": [{"opcode": "x", "params": []}]}]
        if which == 6:
            d["routines"][0]["type"] = "NOPE"
        elif which == 7:
            del d["routines"][0]["ops"]
        elif which == 8:
            d["routines"][0]["ops"][0]["params"] = [{"type": "WHAT", "value": 1}]
        else:
            d.pop("settings")
        with open(jpath, "w") as fh:
            json.dump(d, fh)
        status, out, err = runner("explorerscript.cli.decompile", [jpath])
        what = f"decompile:invalid_document_{which}"
    stt.count(what)
    if status == 0:
        fails.append(Failure("exit_zero_on_failure:" + what, f"stdout {out[:200]!r}"))
    return fails


def evaluate_ssbs_source(src_case, stt, runner, workdir):
    """SsbScript source behind the marker line through the compile command: structure and 1-based jump positions"""
    from vf.checks import c03

    fails = []
    text = decomp.MARKER + "\n" + c03.ssbs_text(src_case)
    api, exc = call_guard(lambda: compile_text(text, os.path.join(workdir, "src.exps")))
    if exc is not None:
        stt.count("ssbs_source_rejected_by_compiler")
        return fails
    src = os.path.join(workdir, "src.exps")
    with open(src, "w", encoding="utf-8") as fh:
        fh.write(text)
    settings = os.path.join(workdir, "settings.json")
    with open(settings, "w") as fh:
        json.dump(settings_dict(), fh)
    status, out, err = runner("explorerscript.cli.compile", [src, "--settings", settings])
    if status != 0:
        fails.append(Failure("compile_cli_failed:ssbs_source", f"exit {status}, stderr {err[-300:]!r}\n{text}"))
        return fails
    try:
        doc = json.loads(out)
    except ValueError as e:
        fails.append(Failure("compile_cli_not_json", f"{e}\n{out[:300]}"))
        return fails
    bad = check_structure(doc)
    if bad:
        fails.append(Failure("compile_cli_structure:ssbs_source", f"{bad}\n{text}"))
        return fails
    position, k = {}, 0
    for r in api.routine_ops:
        for op in r:
            k += 1
            position[op.offset] = k
    flat_api = [op for r in api.routine_ops for op in r]
    flat_doc = [op for r in doc["routines"] for op in r["ops"]]
    if len(flat_api) != len(flat_doc):
        fails.append(Failure("compile_cli_op_count", f"{len(flat_doc)} ops printed, API has {len(flat_api)}"))
        return fails
    for a, d in zip(flat_api, flat_doc):
        if a.op_code.name in T.JUMP_OPS and a.params and isinstance(a.params[-1], int) and a.params[-1] in position:
            stt.mark_nontrivial(text)
            got = d["params"][-1] if d["params"] else None
            if got != position[a.params[-1]]:
                fails.append(Failure("jump_param_is_not_position:ssbs_source", f"{a.op_code.name}: printed jump parameter {got!r}, the target is op number {position[a.params[-1]]} (internal offset {a.params[-1]})\n{text}"))
                break
    return fails


def evaluate(case, stt, runner=None):
    runner = runner or run_cli_inprocess
    workdir = tempfile.mkdtemp(prefix="vf-c15-")
    try:
        stt.count("kind:" + case["kind"])
        if case["kind"] == "program":
            return evaluate_program(case["prog"], stt, runner, workdir)
        if case["kind"] == "document":
            return evaluate_document(case["doc"], stt, runner, workdir)
        if case["kind"] == "ssbs_source":
            return evaluate_ssbs_source(case["src"], stt, runner, workdir)
        return evaluate_invalid(case["which"], case["prog"], stt, runner, workdir)
    finally:
        shutil.rmtree(workdir, ignore_errors=True)


def extra(ctx):
    """Real subprocesses for a deterministic sample of cases."""
    import hypothesis
    from concurrent.futures import ThreadPoolExecutor
    from hypothesis import HealthCheck, Phase, given, settings

    from vf.core import Stats, derive_seed, known_buckets, write_replay

    n = N_SUBPROCESS[ctx.tier]
    cases = []

    @hypothesis.seed(derive_seed(ctx.seed, ID, 999, "subprocess"))
    @settings(max_examples=n, database=None, deadline=None, phases=[Phase.generate], suppress_health_check=list(HealthCheck))
    @given(strategy(ctx.tier))
    def collect(case):
        cases.append(case)

    collect()
    kb = known_buckets(ctx.known)

    def one(case):
        st_ = Stats()
        workdir = tempfile.mkdtemp(prefix="vf-c15s-")
        try:
            fs = evaluate(case, st_, runner=lambda m, a: run_cli_subprocess(m, a, workdir))
        finally:
            shutil.rmtree(workdir, ignore_errors=True)
        return case, fs, st_

    with ThreadPoolExecutor(16) as ex:
        for case, fs, st_ in ex.map(one, cases):
            ctx.stats.evaluations += 1
            ctx.stats.count("subprocess_runs")
            ctx.stats.nontrivial |= st_.nontrivial
            for f_ in fs:
                b = "subprocess:" + f_.bucket
                if f_.bucket in kb:
                    ctx.stats.excluded_known += 1
                    continue
                if not any(v[0] == b for v in ctx.violations):
                    path = write_replay(ID, b, case, f_.message)
                    ctx.violations.append((b, path))
                    print(f"  {b}: {f_.message[:600]}")


def shrink_candidates(case):
    if case["kind"] == "program":
        for p in gen_prog.shrink_candidates(case["prog"]):
            yield dict(case, prog=p)
    elif case["kind"] == "document":
        import copy

        d = case["doc"]
        for i in range(len(d["routines"])):
            if len(d["routines"]) > 1:
                c = copy.deepcopy(d)
                del c["routines"][i]
                yield dict(case, doc=c)
            for j in range(len(d["routines"][i]["ops"])):
                c = copy.deepcopy(d)
                del c["routines"][i]["ops"][j]
                if c["routines"][i]["ops"]:
                    yield dict(case, doc=c)
