"""C17 - the highlighting lexer is total and loses no text (DESIGN.md 4, C17)."""
from __future__ import annotations

from hypothesis import strategies as st

from vf import gen_macro, gen_prog, render
from vf.core import Failure, call_guard
from vf.cut import compile_text

ID = "C17"
LEVEL = "exploration"
RULE = (
    "inputs: arbitrary Unicode text; text over a quote / comment / number heavy alphabet (quotes, triple quotes, //, /*, "
    "*/, backslashes, digits, .5, keywords, newlines); rendered valid programs (random layout with comments, with and "
    "without macros) and token-level corruptions of them. Oracle: get_tokens_unprocessed(t) yields contiguous indices "
    "starting at 0 whose values concatenate to t, with at most len(t)+1 tokens (an empty-match loop exceeds that); "
    "get_tokens(t) concatenates to t after Pygments' documented input normalisation (BOM removed, CR/CRLF -> LF, "
    "leading/trailing newlines stripped, one newline appended); for sources the compiler accepts no Token.Error is "
    "emitted. Non-trivial = the text contains a quote or a comment opener; distinct by content hash."
)
ASSUMPTIONS = [
    "Pygments' own preprocessing (stripnl / ensurenl defaults) is trusted; the iteration bound len(t)+1 is the observation of termination",
]
CASES = {"quick": 12800, "thorough": 300000}

ALPHA = ["'", '"', "'''", '"""', "//", "/*", "*/", "\\", "\n", " ", "\t", ".5", "0", "07", "0x1F", "0b1", "12", "a", "_x", "$v", "@l", "§l", "def", "if", "case",
         "Position", "<", ">", "{", "}", "(", ")", ";", ",", "=", "é", "\r", "﻿", "\x00", "~m"]
_tape = st.lists(st.integers(0, 10000), min_size=1, max_size=30)
BS, NL = chr(92), chr(10)


def strategy(tier):
    prog = st.one_of(gen_prog.programs(max_stmts=20), gen_macro.macro_programs(single_file=True, max_stmts=20))
    rendered = st.fixed_dictionaries({"kind": st.just("program"), "prog": prog, "spell": _tape, "layout": st.one_of(st.none(), _tape), "cut": st.one_of(st.none(), st.integers(0, 2000))})
    uni = st.fixed_dictionaries({"kind": st.just("text"), "text": st.text(max_size=80)})
    heavy = st.fixed_dictionaries({"kind": st.just("text"), "text": st.lists(st.sampled_from(ALPHA), max_size=40).map("".join)})
    from vf.core import weighted

    # growth probe: prefix + piece * k + suffix for growing k - a lexer that terminates "on every input" must not need
    # work that explodes with k (backtracking in a token rule); pieces are the characters the rules are built around
    pieces = ["*", "/", "/*", "*/", "'", '"', BS, BS + "'", "//", NL, "'" * 3, '"' * 3, "a", " ", "0", ".", "$", "@", "*a", "* ", "''", "<", "("]
    frag = st.lists(st.sampled_from(ALPHA), max_size=4).map("".join)
    growth = st.fixed_dictionaries({"kind": st.just("growth"), "pre": frag, "piece": st.sampled_from(pieces), "post": frag})
    return weighted((2, rendered), (2, uni), (4, heavy), (1, growth))


def pygments_normalise(text: str) -> str:
    if text.startswith("﻿"):
        text = text[1:]
    text = text.replace("\r\n", "\n").replace("\r", "\n")
    text = text.strip("\n")
    if not text.endswith("\n"):
        text += "\n"
    return text


def eval_growth(case, stt):
    """time of lexing pre + piece*k + post for k = 8, 12, .., 32 (minimum of two runs each); flagged when a step of four
    more repetitions makes it both slow (> 0.3 s) and more than eight times slower than the step before"""
    import time

    from explorerscript.pygments.expslexer import ExplorerScriptLexer

    fails = []
    stt.count("growth_probe")
    lexer = ExplorerScriptLexer()
    prev = None
    for k in (8, 12, 16, 20, 24, 28, 32):
        text = case["pre"] + case["piece"] * k + case["post"]
        best = None
        for _ in range(2):
            t0 = time.perf_counter()
            sum(1 for _ in lexer.get_tokens_unprocessed(text))
            dt = time.perf_counter() - t0
            best = dt if best is None else min(best, dt)
        if prev is not None and best > 0.3 and best > 8 * max(prev, 1e-4):
            fails.append(Failure("lexing_time_explodes", f"{len(text)} characters take {best:.2f} s, four repetitions of {case['piece']!r} fewer took {prev:.4f} s; input={text!r}"))
            break
        prev = best
    stt.mark_nontrivial(case)
    return fails


def evaluate(case, stt):
    from pygments.token import Error

    from explorerscript.pygments.expslexer import ExplorerScriptLexer

    if case["kind"] == "growth":
        return eval_growth(case, stt)
    fails = []
    accepted = False
    if case["kind"] == "program":
        r = render.render(case["prog"], render.Tape(case["spell"]), render.Tape(case["layout"]) if case["layout"] else None, cr=True)
        text = r.text
        if case["cut"] is not None:
            text = text[: case["cut"] % (len(text) + 1)]
            stt.count("truncated_program")
        else:
            _, exc = call_guard(lambda: compile_text(text))
            accepted = exc is None
            stt.count("accepted_program" if accepted else "rejected_program")
    else:
        text = case["text"]
        stt.count("text")
    if any(x in text for x in ("'", '"', "//", "/*")):
        stt.mark_nontrivial(text)
    lexer = ExplorerScriptLexer()
    toks = []
    limit = len(text) + 1

    def run():
        n = 0
        for item in lexer.get_tokens_unprocessed(text):
            toks.append(item)
            n += 1
            if n > limit:
                raise OverflowError("more tokens than characters: the lexer does not advance")
        return n

    _, exc = call_guard(run)
    if exc is not None:
        fails.append(Failure("unprocessed:" + exc[0], f"{exc[1]}\ninput={text!r}"[:1500]))
        return fails
    pos = 0
    for idx, tt, val in toks:
        if idx != pos:
            fails.append(Failure("index_gap", f"token at index {idx}, expected {pos}\ninput={text!r}"[:1500]))
            break
        pos += len(val)
    joined = "".join(v for _, _, v in toks)
    if joined != text:
        fails.append(Failure("text_lost", f"concatenation differs from the input\ninput={text!r}\njoined={joined!r}"[:2000]))
    if accepted and any(tt is Error for _, tt, _ in toks):
        bad = [(i, v) for i, tt, v in toks if tt is Error][:3]
        fails.append(Failure("error_token_in_valid_source", f"{bad}\n{text}"[:2000]))
    out, exc = call_guard(lambda: "".join(v for _, v in lexer.get_tokens(text)))
    if exc is not None:
        fails.append(Failure("get_tokens:" + exc[0], f"{exc[1]}\ninput={text!r}"[:1500]))
    elif out != pygments_normalise(text):
        fails.append(Failure("get_tokens_text_lost", f"input={text!r}\ngot={out!r}"[:2000]))
    if len(stt.samples) < 3 and case["kind"] == "text" and len(text) > 10 and any(x in text for x in ('"""', "/*")):
        stt.sample({"text": text, "tokens": [[str(tt), v] for _, tt, v in toks[:12]]})
    return fails


def shrink_candidates(case):
    if case["kind"] == "text":
        t = case["text"]
        for i in range(len(t)):
            yield dict(case, text=t[:i] + t[i + 1:])
