"""Shared machinery for the decompiler checks (C02, C06, C09, C13)."""
from __future__ import annotations

import copy

from hypothesis import strategies as st

from vf import gen_prog, gen_ssb, render
from vf.core import call_guard, exc_bucket, short_exc
from vf.cut import BudgetExceeded, StepBudget, compile_text, decompile

STEP_BUDGET = 5_000_000
MARKER = "//?: is-ssb-script: true"

_tape = st.lists(st.integers(0, 1000), min_size=0, max_size=9)
_gaps = st.lists(st.integers(0, 3), min_size=1, max_size=5)


def input_strategy(flat=False, w1=2, w2=2, w3=3, max_stmts=25):
    s1 = st.fixed_dictionaries({"stratum": st.just(1), "prog": gen_prog.programs(flat=flat, max_stmts=max_stmts), "gaps": _gaps, "name_table": st.booleans()})
    s2 = st.fixed_dictionaries({"stratum": st.just(2), "prog": gen_prog.programs(max_stmts=max_stmts), "gaps": _gaps, "relayout": st.lists(st.integers(0, 1000), min_size=3, max_size=9), "name_table": st.booleans()})
    s3 = gen_ssb.free_graphs()
    from vf.core import weighted

    # sizes: a routine nested 10-22 blocks deep (ifs, switch cases, loops), an op at every level
    s_deep = st.tuples(st.lists(st.sampled_from(["if", "if", "else", "switch", "forever"]), min_size=10, max_size=22), _gaps).map(lambda t: {"stratum": 1, "prog": _deep_program(t[0]), "gaps": t[1]})
    # ... and, rarely, one that is 60-240 blocks deep, or a chain of that many consecutive ifs / switches (which the
    # decompiler may nest, too). The case holds the description only; materialise() builds the program.
    s_vdeep = st.fixed_dictionaries({"stratum": st.just(1), "gaps": _gaps,
                                     "vdeep": st.fixed_dictionaries({"shape": st.sampled_from(["chain", "chain", "nest"]), "n": st.integers(60, 240),
                                                                     "kinds": st.lists(st.sampled_from(["if", "if", "if", "else", "switch"]), min_size=1, max_size=4)})})
    total = w1 + w2 + w3
    return weighted((w1 * 48, s1), (w2 * 48, s2), (w3 * 48, s3), (2 * total, s_deep), (1, s_vdeep)) if not flat else weighted((w1, s1), (w2, s2), (w3, s3))


def _vdeep_program(d):
    n, kinds = d["n"], d["kinds"]
    if d["shape"] == "nest":
        return _deep_program([kinds[i % len(kinds)] for i in range(n)])
    cnt = [0]

    def op():
        cnt[0] += 1
        return {"k": "op", "name": f"dp_{cnt[0]}", "args": [], "ctx": None}

    body = []
    for i in range(n):
        k = kinds[i % len(kinds)]
        cnt[0] += 1
        cond = {"c": "op", "l": {"t": "const", "v": f"$D_{cnt[0] % 9}"}, "op": "==", "r": {"t": "int", "v": i}, "value_of": False}
        if k == "switch":
            body.append({"k": "switch", "head": {"h": "var", "v": {"t": "const", "v": f"$D_{cnt[0] % 9}"}},
                         "cases": [{"default": False, "head": {"ch": "val", "v": {"t": "int", "v": i}}, "body": [op(), {"k": "ctl", "v": "break"}]}]})
        else:
            body.append({"k": "if", "not": False, "conds": [cond], "body": [op()], "elifs": [], "else": [op()] if k == "else" else None})
    return {"imports": [], "macros": [], "routines": [{"kind": "def", "id": 0, "name": None, "target": None, "alias": False, "body": body + [{"k": "ctl", "v": "end"}]}]}


def _deep_program(kinds):
    n = [0]

    def op():
        n[0] += 1
        return {"k": "op", "name": f"dp_{n[0]}", "args": [], "ctx": None}

    def cond():
        n[0] += 1
        return {"c": "op", "l": {"t": "const", "v": f"$D_{n[0]}"}, "op": "==", "r": {"t": "int", "v": n[0] % 7}, "value_of": False}

    inner = [op()]
    for k in reversed(kinds):
        if k == "if":
            inner = [op(), {"k": "if", "not": False, "conds": [cond()], "body": inner, "elifs": [], "else": None}]
        elif k == "else":
            inner = [{"k": "if", "not": False, "conds": [cond()], "body": [op()], "elifs": [], "else": inner}, op()]
        elif k == "switch":
            n[0] += 1
            inner = [{"k": "switch", "head": {"h": "var", "v": {"t": "const", "v": f"$D_{n[0]}"}},
                      "cases": [{"default": False, "head": {"ch": "val", "v": {"t": "int", "v": 1}}, "body": inner + [{"k": "ctl", "v": "break"}]}]}, op()]
        else:
            inner = [{"k": "forever", "body": [op()] + inner + [{"k": "ctl", "v": "break_loop"}]}]
    return {"imports": [], "macros": [], "routines": [{"kind": "def", "id": 0, "name": None, "target": None, "alias": False, "body": inner + [{"k": "ctl", "v": "end"}]}]}


def materialise(case, stt):
    """-> (ssb case, program AST or None) or (None, None) when the compiler rejected the program"""
    s = case.get("stratum")
    if "vdeep" in case:
        stt.count("very_deep:" + case["vdeep"]["shape"])
        case = dict(case, prog=_vdeep_program(case["vdeep"]))
    if s in (1, 2) and "prog" in case:
        # C02/C06/C09 quantify over routine sets in which every path ends in a flow-ending op:
        # give every routine a final terminator
        prog = copy.deepcopy(case["prog"])
        for r in prog["routines"]:
            if not r.get("alias") and not (r["body"] and r["body"][-1]["k"] == "ctl" and r["body"][-1]["v"] in ("return", "end", "hold")):
                r["body"].append({"k": "ctl", "v": "return"})
        case = dict(case, prog=prog)
        text = render.render(case["prog"]).text
        comp, exc = call_guard(lambda: compile_text(text))
        if exc is not None:
            stt.count("rejected_by_compiler")
            return None, None
        c = gen_ssb.case_from_compiled(comp, case["gaps"])
        if c is None:
            stt.count("gap_routine")
            return None, None
        c["stratum"] = s
        c["name_table"] = bool(case.get("name_table"))
        if s == 2:
            c, applied = gen_ssb.relayout(c, case["relayout"])
            for a in applied:
                stt.count("relayout:" + a)
            c["stratum"] = 2
        return c, case["prog"]
    return case, None


def run_decompiler(c):
    """-> ("ok", text, source_map) | ("exc", bucket, message) | ("budget", None, None)"""
    infos, rops, coros = gen_ssb.build(c)
    try:
        with StepBudget(STEP_BUDGET):
            text, sm = decompile(infos, rops, coros)
        return "ok", text, sm
    except BudgetExceeded:
        return "budget", None, None
    except RecursionError as e:
        return "exc", "exc:RecursionError", short_exc(e, 200)
    except Exception as e:  # noqa
        return "exc", exc_bucket(e), short_exc(e)


def features(c) -> set[str]:
    out = set()
    for r_i, r in enumerate(c["routines"]):
        for oi, op in enumerate(r["ops"]):
            name, _, tgt = op
            if tgt is not None:
                if tgt[0] != r_i:
                    out.add("cross_routine_jump")
                elif tgt[1] <= oi:
                    out.add("backward_jump")
                if name == "Call":
                    out.add("call")
                if name != "Jump" and name != "Call":
                    out.add("conditional")
            if oi == 0 and name == "Jump":
                out.add("leading_jump")
            if name in ("lives", "object", "performer"):
                out.add("ctx_op")
            if name in ("message_SwitchTalk", "message_SwitchMonologue"):
                out.add("msg_switch")
    return out
