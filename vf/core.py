"""Runner core: seeds, sharding, collect-then-shrink, known findings, evidence.

Every check module (vf/checks/cNN.py) exposes

    ID, LEVEL, RULE, ASSUMPTIONS, CASES = {"quick": n, "thorough": n}
    strategy(tier)              -> hypothesis strategy producing a JSON-able case
    evaluate(case, st)          -> list[Failure]   (empty = property held on this case)
    optional: SHARDS, extra(ctx), builtin_replays(), run_shard(...)

`evaluate` never raises for a property violation: it returns Failure(bucket, message)
objects (collecting mode, DESIGN.md 2.4).  Anything it *raises* is a harness error
(exit 2), never a VIOLATION.
"""
from __future__ import annotations

import hashlib
import json
import multiprocessing
import os
import resource
import signal
import sys
import time
import traceback
from collections import Counter
from dataclasses import dataclass, field
from pathlib import Path
from typing import Any

VERIF = Path(__file__).resolve().parent.parent
REPO = Path(os.environ.get("VERIF_REPO", "/repo")).resolve()
NPROC = int(os.environ.get("VERIF_NPROC", "16"))
EVID = Path(os.environ.get("VERIF_EVIDENCE_DIR", str(VERIF / "evidence")))


# --------------------------------------------------------------------------------------
# data
# --------------------------------------------------------------------------------------
@dataclass
class Failure:
    bucket: str
    message: str


class HarnessTimeout(BaseException):
    pass


class Stats:
    """Per-shard counters; merged by the parent."""

    def __init__(self) -> None:
        self.evaluations = 0
        self.classes: Counter[str] = Counter()
        self.nontrivial: set[str] = set()
        self.distinct: set[str] = set()
        self.samples: list[Any] = []
        self.skipped_budget = 0
        self.excluded_known = 0
        self.timeouts = 0
        self.timeout_cases: list[Any] = []
        self.extra: Counter[str] = Counter()

    def count(self, cls: str, n: int = 1) -> None:
        self.classes[cls] += n

    def add(self, key: str, n: int = 1) -> None:
        self.extra[key] += n

    def mark_nontrivial(self, case: Any) -> None:
        self.nontrivial.add(case_hash(case))

    def sample(self, obj: Any, cap: int = 3) -> None:
        if len(self.samples) < cap:
            self.samples.append(obj)

    def merge(self, other: "Stats") -> None:
        self.evaluations += other.evaluations
        self.classes.update(other.classes)
        self.nontrivial |= other.nontrivial
        self.distinct |= other.distinct
        for s in other.samples:
            if len(self.samples) < 6:
                self.samples.append(s)
        self.skipped_budget += other.skipped_budget
        self.excluded_known += other.excluded_known
        self.timeouts += other.timeouts
        for c in other.timeout_cases:
            if len(self.timeout_cases) < 5:
                self.timeout_cases.append(c)
        self.extra.update(other.extra)


def case_hash(case: Any) -> str:
    return hashlib.sha1(json.dumps(case, sort_keys=True, default=str).encode()).hexdigest()[:16]


def derive_seed(seed: int, check_id: str, shard: int, salt: str = "") -> int:
    h = hashlib.sha256(f"{seed}/{check_id}/{shard}/{salt}".encode()).digest()
    return int.from_bytes(h[:8], "big")


# --------------------------------------------------------------------------------------
# calling the code under test
# --------------------------------------------------------------------------------------
def exc_bucket(exc: BaseException) -> str:
    """(exception type, innermost frame inside the explorerscript package)."""
    tb = exc.__traceback__
    where = "?"
    frames = traceback.extract_tb(tb)
    for fr in reversed(frames):
        fn = fr.filename.replace("\\", "/")
        if "/explorerscript/" in fn and "/antlr/" not in fn:
            where = fn.split("/explorerscript/", 1)[1] + ":" + fr.name
            break
    else:
        if frames:
            fr = frames[-1]
            where = os.path.basename(fr.filename) + ":" + fr.name
    return f"exc:{type(exc).__name__}@{where}"


def weighted(*pairs):
    """st.one_of with weights: weighted((3, a), (1, b)). (Repeating a strategy object inside st.one_of does NOT weight it -
    Hypothesis removes duplicates.)"""
    from hypothesis import strategies as st

    idx = [i for i, (w, _) in enumerate(pairs) for _ in range(w)]
    return st.sampled_from(idx).flatmap(lambda i: pairs[i][1])


def call_guard(fn):
    """Run fn(); returns (result, None) or (None, (bucket, message)). Harness-private
    BaseExceptions (HarnessTimeout, budget) pass through."""
    try:
        return fn(), None
    except Exception as e:  # noqa
        return None, (exc_bucket(e), short_exc(e))


def short_exc(exc: BaseException, n: int = 300) -> str:
    s = f"{type(exc).__name__}: {exc}"
    return s if len(s) <= n else s[:n] + "..."


# --------------------------------------------------------------------------------------
# known findings
# --------------------------------------------------------------------------------------
def load_known(check_id: str) -> list[dict]:
    p = VERIF / "known_findings.json"
    if not p.exists():
        return []
    data = json.loads(p.read_text())
    return [e for e in data.get("findings", []) if e.get("property") == check_id and e.get("status") == "open"]


def known_buckets(known: list[dict]) -> set[str]:
    out: set[str] = set()
    for e in known:
        out.update(e.get("buckets", []))
    return out


# --------------------------------------------------------------------------------------
# shard worker
# --------------------------------------------------------------------------------------
def _alarm_handler(signum, frame):  # noqa
    raise HarnessTimeout()


def _limit_worker() -> None:
    try:
        lim = int(os.environ.get("VERIF_WORKER_AS_GB", "6")) * (1 << 30)
        resource.setrlimit(resource.RLIMIT_AS, (lim, lim))
    except Exception:  # noqa
        pass
    signal.signal(signal.SIGALRM, _alarm_handler)


CASE_WALL_S = int(os.environ.get("VERIF_CASE_WALL_S", "120"))


def safe_evaluate(mod, case, st: Stats) -> tuple[list[Failure], str | None]:
    """Run mod.evaluate under the wall-clock backstop. Returns (failures, harness_error)."""
    # repeating timer: a single SIGALRM can be swallowed when it fires inside a gc callback / __del__
    signal.setitimer(signal.ITIMER_REAL, CASE_WALL_S, 2.0)
    try:
        from vf.cut import harness_stack

        # the harness's own recursive code (renderer, parser, models) gets a deep stack; calls into the code under test
        # go through vf.cut, which gives it the stack a plain caller would have
        with harness_stack():
            res = mod.evaluate(case, st) or []
        return list(res), None
    except HarnessTimeout:
        st.timeouts += 1
        if len(st.timeout_cases) < 3:
            st.timeout_cases.append(case)
        return [], None
    except MemoryError:
        st.timeouts += 1
        return [], None
    except Exception:  # noqa
        return [], traceback.format_exc()
    finally:
        signal.setitimer(signal.ITIMER_REAL, 0)


def default_run_shard(mod, tier: str, seed: int, shard: int, n_cases: int, known_b: set[str]) -> dict:
    import hypothesis
    from hypothesis import HealthCheck, Phase, given, settings

    _limit_worker()
    st = Stats()
    fails: dict[str, dict] = {}
    herrs: list[str] = []
    strat = mod.strategy(tier)

    @hypothesis.seed(derive_seed(seed, mod.ID, shard))
    @settings(
        max_examples=n_cases,
        database=None,
        deadline=None,
        derandomize=False,
        phases=[Phase.generate],
        suppress_health_check=list(HealthCheck),
        report_multiple_bugs=False,
    )
    @given(strat)
    def prop(case):
        st.evaluations += 1
        st.distinct.add(case_hash(case))
        failures, herr = safe_evaluate(mod, case, st)
        if herr is not None:
            if len(herrs) < 3:
                herrs.append(herr + "\ncase=" + json.dumps(case, default=str)[:2000])
            return
        for f_ in failures:
            if f_.bucket in known_b:
                st.excluded_known += 1
                continue
            e = fails.setdefault(f_.bucket, {"count": 0, "case": case, "message": f_.message, "shard": shard})
            e["count"] += 1
            # keep the smallest example seen
            if len(json.dumps(case, default=str)) < len(json.dumps(e["case"], default=str)):
                e["case"] = case
                e["message"] = f_.message

    t0 = time.time()
    try:
        prop()
    except Exception:  # noqa  (hypothesis-internal trouble is a harness error)
        herrs.append(traceback.format_exc())
    return {"stats": st, "fails": fails, "herrs": herrs, "wall": time.time() - t0, "shard": shard}


def _shard_entry(args):
    modname, tier, seed, shard, n_cases, known_b = args
    import importlib

    mod = importlib.import_module(modname)
    fn = getattr(mod, "run_shard", None)
    if fn is not None:
        _limit_worker()
        return fn(tier, seed, shard, n_cases, known_b)
    return default_run_shard(mod, tier, seed, shard, n_cases, known_b)


# --------------------------------------------------------------------------------------
# shrinking (second run, raising only for one bucket; smallest failing case is recorded)
# --------------------------------------------------------------------------------------
def _shrink_entry(args):
    modname, tier, seed, shard, n_cases, bucket, outfile = args
    import importlib

    import hypothesis
    from hypothesis import HealthCheck, Phase, given, settings

    _limit_worker()
    mod = importlib.import_module(modname)
    strat = mod.strategy(tier)
    best = {"len": None}

    @hypothesis.seed(derive_seed(seed, mod.ID, shard))
    @settings(
        max_examples=n_cases,
        database=None,
        deadline=None,
        derandomize=False,
        phases=[Phase.generate, Phase.shrink],
        suppress_health_check=list(HealthCheck),
        report_multiple_bugs=False,
    )
    @given(strat)
    def prop(case):
        st = Stats()
        failures, herr = safe_evaluate(mod, case, st)
        for f_ in failures:
            if f_.bucket == bucket:
                s = json.dumps(case, default=str)
                if best["len"] is None or len(s) < best["len"]:
                    best["len"] = len(s)
                    tmp = outfile + ".tmp"
                    with open(tmp, "w") as fh:
                        json.dump({"case": case, "message": f_.message}, fh)
                    os.replace(tmp, outfile)
                raise AssertionError(bucket)

    try:
        prop()
    except BaseException:  # noqa
        pass
    return True


def shrink_bucket(mod, tier, seed, entry, bucket, n_cases, budget_s: float) -> tuple[Any, str]:
    """Returns (minimal case, message). Falls back to the recorded example."""
    scratch = EVID / "replay"
    scratch.mkdir(parents=True, exist_ok=True)
    outfile = str(scratch / f".shrink-{mod.ID}-{hashlib.sha1(bucket.encode()).hexdigest()[:8]}.json")
    if os.path.exists(outfile):
        os.unlink(outfile)
    ctx = multiprocessing.get_context("fork")
    p = ctx.Process(target=_shrink_entry, args=((mod.__name__, tier, seed, entry["shard"], n_cases, bucket, outfile),))
    p.start()
    p.join(budget_s)
    if p.is_alive():
        p.kill()
        p.join()
    case, msg = entry["case"], entry["message"]
    if os.path.exists(outfile):
        try:
            d = json.load(open(outfile))
            if len(json.dumps(d["case"])) <= len(json.dumps(case, default=str)):
                case, msg = d["case"], d["message"]
        except Exception:  # noqa
            pass
        os.unlink(outfile)
    return case, msg


def greedy_shrink(mod, case, msg, bucket, budget_s):
    """Delete-one-element pass driven by the check's own shrink_candidates(case)."""
    cands = getattr(mod, "shrink_candidates", None)
    if cands is None:
        return case, msg
    _limit_worker_parent()
    t0 = time.time()
    improved = True
    while improved and time.time() - t0 < budget_s:
        improved = False
        for c in cands(case):
            if time.time() - t0 > budget_s:
                break
            try:
                failures, herr = safe_evaluate(mod, c, Stats())
            except BaseException:  # noqa
                continue
            hit = [f_ for f_ in failures if f_.bucket == bucket]
            if hit and herr is None:
                case, msg = c, hit[0].message
                improved = True
                break
    return case, msg


# --------------------------------------------------------------------------------------
# top level
# --------------------------------------------------------------------------------------
@dataclass
class RunCtx:
    mod: Any
    tier: str
    seed: int
    known: list[dict]
    stats: Stats = field(default_factory=Stats)
    violations: list[tuple[str, str]] = field(default_factory=list)  # (bucket, replay path)
    known_lines: list[str] = field(default_factory=list)
    herrs: list[str] = field(default_factory=list)
    notes: list[str] = field(default_factory=list)
    replayed: int = 0


def write_replay(check_id: str, bucket: str, case: Any, message: str) -> str:
    d = EVID / "replay"
    d.mkdir(parents=True, exist_ok=True)
    name = f"{check_id}-{hashlib.sha1(bucket.encode()).hexdigest()[:10]}.json"
    p = d / name
    p.write_text(json.dumps({"property": check_id, "bucket": bucket, "message": message, "case": case}, indent=1, default=str))
    try:
        return str(p.relative_to(VERIF))
    except ValueError:
        return str(p)


def replay_tier(ctx: RunCtx) -> None:
    mod = ctx.mod
    known_b = known_buckets(ctx.known)
    pinned = {e["replay"]: e for e in ctx.known if e.get("replay")}
    files: list[tuple[str, Any]] = []
    rdir = VERIF / "replays" / mod.ID
    if rdir.is_dir():
        for p in sorted(rdir.glob("*.json")):
            rel = str(p.relative_to(VERIF))
            try:
                d = json.loads(p.read_text())
            except Exception as e:  # noqa
                ctx.herrs.append(f"unreadable replay {rel}: {e}")
                continue
            files.append((rel, d["case"] if isinstance(d, dict) and "case" in d else d))
    for name, case in getattr(mod, "builtin_replays", lambda: [])():
        files.append((f"builtin:{name}", case))
    _limit_worker_parent()
    reproduced: set[str] = set()
    for rel, case in files:
        st = Stats()
        failures, herr = safe_evaluate(mod, case, st)
        ctx.replayed += 1
        if herr:
            ctx.herrs.append(f"replay {rel}: {herr}")
            continue
        entry = pinned.get(rel)
        for f_ in failures:
            if entry is not None and f_.bucket in entry.get("buckets", []):
                reproduced.add(rel)
                continue
            if f_.bucket in known_b:
                continue
            path = rel if not rel.startswith("builtin:") else write_replay(mod.ID, f_.bucket, case, f_.message)
            ctx.violations.append((f_.bucket, path))
            print(f"  replay {rel}: {f_.bucket}: {f_.message}"[:600])
    for rel, entry in pinned.items():
        if rel in reproduced:
            line = f"KNOWN-FINDING: property={mod.ID} {entry['what']}"
            ctx.known_lines.append(line)
            print(line)
        else:
            ctx.notes.append(f"known finding {entry.get('id')} did not reproduce on its pinned input {rel}")
            print(f"note: known finding {entry.get('id')} no longer reproduces on {rel}")


def _limit_worker_parent() -> None:
    signal.signal(signal.SIGALRM, _alarm_handler)


def generation_tier(ctx: RunCtx) -> None:
    mod = ctx.mod
    total = int(os.environ.get("VERIF_CASES", mod.CASES[ctx.tier]))
    if total <= 0:
        return
    shards = min(getattr(mod, "SHARDS", NPROC), NPROC, max(1, total))
    per = (total + shards - 1) // shards
    known_b = known_buckets(ctx.known)
    args = [(mod.__name__, ctx.tier, ctx.seed, i, per, known_b) for i in range(shards)]
    mp = multiprocessing.get_context("fork")
    with mp.Pool(shards, maxtasksperchild=1) as pool:
        results = pool.map(_shard_entry, args, chunksize=1)
    merged: dict[str, dict] = {}
    for r in results:
        ctx.stats.merge(r["stats"])
        ctx.herrs.extend(r["herrs"])
        for b, e in r["fails"].items():
            m = merged.get(b)
            if m is None:
                merged[b] = dict(e)
            else:
                m["count"] += e["count"]
                if len(json.dumps(e["case"], default=str)) < len(json.dumps(m["case"], default=str)):
                    m.update(case=e["case"], message=e["message"], shard=e["shard"])
    if not merged:
        return
    shrink_budget = float(os.environ.get("VERIF_SHRINK_S", "60" if ctx.tier == "quick" else "240"))
    no_shrink = getattr(mod, "NO_SHRINK", False) or os.environ.get("VERIF_NO_SHRINK") == "1"
    for i, (bucket, e) in enumerate(sorted(merged.items(), key=lambda kv: -kv[1]["count"])):
        case, msg = e["case"], e["message"]
        if not no_shrink and i < 4:
            try:
                case, msg = shrink_bucket(mod, ctx.tier, ctx.seed, e, bucket, per, shrink_budget)
            except Exception:  # noqa
                pass
        try:
            case, msg = greedy_shrink(mod, case, msg, bucket, 60 if ctx.tier == "quick" else 180)
        except Exception:  # noqa
            pass
        path = write_replay(mod.ID, bucket, case, msg)
        ctx.violations.append((bucket, path))
        print(f"  bucket {bucket} x{e['count']}: {msg}"[:1500])


def write_evidence(ctx: RunCtx, wall: float) -> None:
    mod = ctx.mod
    st = ctx.stats
    cov: dict[str, Any] = {
        "evaluations": st.evaluations + ctx.replayed,
        "distinct_nontrivial": len(st.nontrivial),
        "distinct_cases": len(st.distinct),
        "rule": mod.RULE,
        "samples": st.samples[:6],
        "classes": dict(sorted(st.classes.items())),
        "replayed": ctx.replayed,
        "skipped_budget": st.skipped_budget,
        "excluded_known": st.excluded_known,
        "timeouts_inconclusive": st.timeouts,
        "timeout_cases": st.timeout_cases,
        "known_findings_reproduced": ctx.known_lines,
        "notes": ctx.notes,
        "violation_buckets": [b for b, _ in ctx.violations],
    }
    cov.update({k: v for k, v in sorted(st.extra.items())})
    if mod.LEVEL == "translation_validation":
        cov["programs"] = st.extra.get("programs", st.evaluations)
        cov["disagreements_checked"] = st.extra.get("disagreements_checked", 0)
    ev = {
        "property_id": mod.ID,
        "tier": ctx.tier,
        "seed": ctx.seed,
        "level": mod.LEVEL,
        "coverage": cov,
        "assumptions": list(mod.ASSUMPTIONS),
        "wall_s": round(wall, 2),
        "violations": len(ctx.violations),
    }
    d = EVID
    d.mkdir(parents=True, exist_ok=True)
    (d / f"{mod.ID}.json").write_text(json.dumps(ev, indent=1, default=str) + "\n")


def run_check(mod, tier: str, seed: int, replay: str | None = None) -> int:
    t0 = time.time()
    known = load_known(mod.ID)
    ctx = RunCtx(mod=mod, tier=tier, seed=seed, known=known)
    if replay is not None:
        p = Path(replay)
        if not p.is_absolute():
            p = VERIF / p
        d = json.loads(p.read_text())
        case = d["case"] if isinstance(d, dict) and "case" in d else d
        _limit_worker_parent()
        failures, herr = safe_evaluate(mod, case, Stats())
        if herr:
            print(herr)
            return 2
        kb = known_buckets(known)
        bad = [f_ for f_ in failures if f_.bucket not in kb]
        for f_ in failures:
            print(f"  {f_.bucket}: {f_.message}")
        if bad:
            print(f"VIOLATION property={mod.ID} replay={replay}")
            return 1
        print(f"replay ok property={mod.ID}")
        return 0

    replay_tier(ctx)
    generation_tier(ctx)
    extra = getattr(mod, "extra", None)
    if extra is not None:
        try:
            extra(ctx)
        except Exception:  # noqa
            ctx.herrs.append(traceback.format_exc())
    wall = time.time() - t0
    write_evidence(ctx, wall)
    st = ctx.stats
    print(
        f"[{mod.ID}] tier={tier} seed={seed} evaluations={st.evaluations}+{ctx.replayed} replays "
        f"distinct_nontrivial={len(st.nontrivial)} skipped_budget={st.skipped_budget} "
        f"excluded_known={st.excluded_known} timeouts={st.timeouts} wall={wall:.1f}s"
    )
    if ctx.herrs:
        print("HARNESS ERROR(S):")
        for h in ctx.herrs[:5]:
            print(h[:3000])
    seen = set()
    for bucket, path in ctx.violations:
        if (bucket, path) in seen:
            continue
        seen.add((bucket, path))
        print(f"VIOLATION property={mod.ID} replay={path}")
    if ctx.violations:
        return 1
    if ctx.herrs:
        return 2
    return 0
