import os, sys, json, time; sys.path.insert(0, os.path.dirname(os.path.dirname(os.path.abspath(__file__)))); sys.path.insert(0, "/repo")
os.dup2(os.open(os.devnull, os.O_WRONLY), 2)
import logging; logging.disable(logging.CRITICAL)
from hypothesis import given, settings, seed, HealthCheck, Phase
from vf import gen_ssb, decomp, core
from vf.checks import c02
N = int(sys.argv[1]) if len(sys.argv) > 1 else 2000
SEED = int(sys.argv[2]) if len(sys.argv) > 2 else 7
found = []
@seed(SEED)
@settings(max_examples=N, database=None, deadline=None, suppress_health_check=list(HealthCheck), phases=[Phase.generate])
@given(gen_ssb.free_graphs())
def t(case):
    fails = c02.evaluate(case, core.Stats())
    fails = [f for f in fails if not f.bucket.startswith("kf_")]
    if fails:
        found.append((case, fails[0]))
t()
print(len(found), "failing of", N)
seen = set()
for case, f in found[:60]:
    bucket = f.bucket
    t0 = time.time()
    improved = True
    while improved and time.time() - t0 < 8:
        improved = False
        for c in c02.shrink_candidates(case):
            fs = [x for x in c02.evaluate(c, core.Stats()) if x.bucket == bucket]
            if fs:
                case, f = c, fs[0]; improved = True; break
    key = gen_ssb.describe(case)
    if key in seen: continue
    seen.add(key)
    print("=" * 70); print(f.bucket); print(f.message[:1500])
