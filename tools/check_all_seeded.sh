#!/bin/sh
# re-validates every change under seeded/ against the current checks (4 at a time) and rewrites seeded/README.md
# usage: sh tools/check_all_seeded.sh [name ...]
cd "$(dirname "$0")/.."
names=${*:-$(ls seeded | grep -v '\.md$')}
for n in $names; do
  prop=$(python3 -c "import json;print(json.load(open('seeded/$n/meta.json'))['property'])")
  checks=$(python3 -c "import json;print(','.join(sorted({k.split('@')[0] for k in json.load(open('seeded/$n/meta.json'))['checks_run']})))")
  echo "$n $prop ${checks:-$prop}"
done | xargs -P 4 -L 1 sh -c 'python3 tools/check_seeded.py $0 seeded/$0 --property $1 --checks $2 --keep > /tmp/vf-seedlog-$0.txt 2>&1; echo "$0 done"'
python3 tools/seeded_readme.py
rm -f /tmp/vf-seedlog-*.txt
