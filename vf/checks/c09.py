"""C09 - decompile-time source map points at the statement printed for each op (DESIGN.md 4, C09)."""
from __future__ import annotations

import re

from vf import decomp, gen_prog, gen_ssb, spec_tables as T
from vf.core import Failure, call_guard
from vf.cut import compile_text, decompile_ssbs

ID = "C09"
LEVEL = "exploration"
RULE = (
    "well-formed routine sets from gen_ssb strata 1-3 with unique operation names and multi-line string / language "
    "string parameters; both decompilers. Oracle: every source-map key is the offset of an input op; the text at the "
    "recorded zero-based (line, column) begins the statement printed for that op (per opcode family: name( / name< for "
    "operations, return/end/hold, call @, if / elseif for branch ops (a leading '} ' is tolerated), switch ( / case / "
    "default:, the assignment forms of the flag ops, with ( or the inline form for context ops, message_Switch* ( and "
    "case / default: for text cases, continue / break_loop / jump for Jump ops); every uniquely named operation that is "
    "printed has an entry on the line and column where its name stands; compiling the text places that operation on the "
    "same line. Non-trivial = a multi-line parameter is printed before a mapped op, or nesting depth >= 2; distinct by "
    "content hash."
)
ASSUMPTIONS = [
    "a Jump op that is elided in the text may keep an entry that points at the statement printed in its place (the source says so); only its line/column being the start of a statement is required",
    "ops grouped into one `if (a || b)` header share the entry of the first branch op",
]
CASES = {"quick": 6400, "thorough": 60000}

FLAG_RE = {
    "flag_CalcBit": r"\S+\[\S+\] = ",
    "flag_CalcValue": r"\S+ (-=|\+=|\*=|/=|=) ",
    "flag_CalcVariable": r"\S+ (-=|\+=|\*=|/=|=) value\(",
    "flag_Clear": r"clear ",
    "flag_Initial": r"init ",
    "flag_Set": r"\S+ = ",
    "flag_ResetDungeonResult": r"reset dungeon_result;",
    "flag_ResetScenario": r"reset scn\(",
    "flag_SetAdventureLog": r"adventure_log = ",
    "flag_SetDungeonMode": r"dungeon_mode\(",
    "flag_SetPerformance": re.escape(T.PERF_VAR) + r"\[",
    "flag_SetScenario": r"\S+ = scn\[",
}


def strategy(tier):
    return decomp.input_strategy(w1=3, w2=2, w3=2)


def expected_regex(name, ops, i):
    """Regular expression that must match at the recorded position for op i of its routine."""
    if name in ("Return", "End", "Hold"):
        return {"Return": r"return;", "End": r"end;", "Hold": r"hold;"}[name]
    if name == "Call":
        return r"call @"
    if name == "Jump":
        return r"\S"
    if name in T.OPS_BRANCH:
        return r"(\} )?(else)?if\b|\} elseif\b"
    if name in T.SWITCH_CASE_MAP:
        return r"switch \(|" + re.escape(name) + r"[(<]"
    if name in T.OPS_CASE:
        return r"case "
    if name in FLAG_RE:
        return FLAG_RE[name]
    if name in T.OPS_CTX:
        return r"with \(|[A-Za-z_][A-Za-z0-9_]*<(actor|object|performer) "
    if name in T.MSG_SWITCHES:
        return re.escape(name) + r" \("
    if name == "CaseText":
        return r"case "
    if name == "DefaultText":
        return r"default:"
    return re.escape(name) + r"[(<]"


def unique_plain_ops(c):
    """(offset, name) of ops whose name is unique in the set and has no special meaning."""
    offs = gen_ssb.offsets_of(c)
    names = {}
    for r_i, r in enumerate(c["routines"]):
        for i, op in enumerate(r["ops"]):
            names.setdefault(op[0], []).append((r_i, i))
    out = {}
    for name, where in names.items():
        if len(where) == 1 and name not in T.SPECIAL_OP_NAMES:
            r_i, i = where[0]
            out[offs[r_i][i]] = name
    return out


def check_map(c, text, sm, which, fails, stt, desc):
    offs = gen_ssb.offsets_of(c)
    by_offset = {}
    for r_i, r in enumerate(c["routines"]):
        for i, op in enumerate(r["ops"]):
            by_offset[offs[r_i][i]] = (r_i, i, op[0])
    lines = text.split("\n")
    entries = {k: (m.line, m.column) for k, m in sm}
    for off, (line, col) in sorted(entries.items()):
        if off not in by_offset:
            fails.append(Failure(f"{which}:key_not_an_op", f"source map key {off} is not the offset of an input op\n{desc}"))
            continue
        r_i, i, name = by_offset[off]
        if line < 0 or line >= len(lines) or col < 0 or col > len(lines[line]):
            fails.append(Failure(f"{which}:position_outside_text", f"op {name}@{off} mapped to ({line},{col}) outside the text\n{text}"))
            continue
        here = lines[line][col:]
        if lines[line][:col].strip() not in ("", "}"):
            fails.append(Failure(f"{which}:not_statement_start:{family(name)}", f"op {name}@{off} mapped to ({line},{col}) which is not the start of a statement: {lines[line]!r}\n{desc}\n--- text:\n{text}"))
            continue
        rx = expected_regex(name, c["routines"][r_i]["ops"], i) if which == "exps" else re.escape(name) + r"\("
        if not re.match(rx, here):
            fails.append(Failure(f"{which}:wrong_statement:{family(name)}", f"op {name}@{off} mapped to ({line},{col}) where the text reads {here[:40]!r}\n{desc}\n--- text:\n{text}"))
    # every printed uniquely named operation has an entry at its own position
    uniq = unique_plain_ops(c)
    pos = {}
    for ln, l in enumerate(lines):
        for off, name in uniq.items():
            m = re.search(r"(?<![A-Za-z0-9_$'\"])" + re.escape(name) + r"[(<]", l)
            if m and l[: m.start()].strip() == "":
                pos.setdefault(off, []).append((ln, m.start()))
    for off, where in pos.items():
        if len(where) != 1:
            continue
        if off not in entries:
            fails.append(Failure(f"{which}:missing_entry", f"operation {uniq[off]}@{off} is printed at {where[0]} but has no source map entry\n{desc}\n--- text:\n{text}"))
        elif entries[off] != where[0]:
            fails.append(Failure(f"{which}:op_position", f"operation {uniq[off]}@{off} is printed at {where[0]} but mapped to {entries[off]}\n{desc}\n--- text:\n{text}"))
    return entries, pos, uniq


def family(name):
    if name in T.OPS_BRANCH:
        return "branch"
    if name in T.OPS_CASE:
        return "case"
    if name in T.SWITCH_CASE_MAP:
        return "switch"
    if name in FLAG_RE:
        return "flag"
    if name in T.OPS_CTX:
        return "ctx"
    if name in T.MSG_SWITCHES or name in ("CaseText", "DefaultText"):
        return "msgswitch"
    if name in ("Return", "End", "Hold", "Jump", "Call"):
        return name.lower()
    return "op"


def evaluate(case, stt):
    fails = []
    c, prog = decomp.materialise(case, stt)
    if c is None:
        return fails
    stt.count(f"stratum:{c.get('stratum')}")
    if not gen_ssb.well_formed(c)[0]:
        stt.count("discard_not_well_formed")
        return fails
    desc = gen_ssb.describe(c)
    status, a, b = decomp.run_decompiler(c)
    if status != "ok":
        stt.count("decompiler_failed_(C06)")
        return fails
    text, sm = a, b
    which = "ssbs_fallback" if text.startswith(decomp.MARKER) else "exps"
    stt.count("output:" + which)
    entries, pos, uniq = check_map(c, text, sm, which, fails, stt, desc)
    multi = any("\n" in l for l in [text]) and ("'''" in text or '"""' in text)
    depth2 = any(l.startswith("            ") and l.strip() for l in text.split("\n"))
    if multi or depth2:
        stt.mark_nontrivial(c)
    if multi:
        stt.count("multiline_param")
    if depth2:
        stt.count("depth>=2")
    # recompiling puts every uniquely named operation on the same line
    if which == "exps" and not fails:
        comp, exc = call_guard(lambda: compile_text(text))
        if exc is None:
            stt.count("recompiled")
            name_line = {}
            for r in comp.routine_ops:
                for op in r:
                    m = comp.source_map.get_op_line_and_col(op.offset)
                    if m is not None and op.op_code.name in uniq.values():
                        name_line.setdefault(op.op_code.name, []).append(m.line)
            for off, name in uniq.items():
                if off in entries and name in name_line and len(name_line[name]) == 1 and len(pos.get(off, [])) == 1:
                    if name_line[name][0] != entries[off][0]:
                        fails.append(Failure("recompiled_line", f"{name}: decompile map line {entries[off][0]}, compile map line {name_line[name][0]}\n--- text:\n{text}"))
        else:
            stt.count("recompile_rejected_(C02)")
    # the SsbScript decompiler on the same input
    infos, rops, coros = gen_ssb.build(c)
    # the optional header text of the SsbScript decompiler (the fallback passes its warning block): drawn from the
    # input, with and without a final line break
    import hashlib

    pick = hashlib.sha1(desc.encode()).digest()[0] % 6
    prefix = [None, "", "// decompiled by vf", "// a\n// b", "// a\n", "//?: key: value\n// second line\n\n"][pick]
    stt.count("ssbs_prefix:" + ("none" if prefix is None else "empty" if prefix == "" else "unterminated" if not prefix.endswith("\n") else "terminated"))
    out, exc = call_guard(lambda: decompile_ssbs(infos, rops, coros, prefix))
    if exc is None:
        if prefix and not out[0].startswith(prefix):
            fails.append(Failure("ssbs:prefix_lost", f"the text does not start with the prefix {prefix!r}\n{out[0][:200]}"))
        check_map(c, out[0], out[1], "ssbs", fails, stt, desc)
        n_ops = sum(len(r["ops"]) for r in c["routines"])
        if len(list(out[1])) != n_ops:
            fails.append(Failure("ssbs:entry_count", f"{len(list(out[1]))} entries for {n_ops} ops\n{desc}"))
    if len(stt.samples) < 2 and multi and depth2 and not fails:
        stt.sample({"text": text[:1200], "map": {str(k): list(v) for k, v in sorted(entries.items())}})
    return fails


def shrink_candidates(case):
    if "prog" in case:
        for p in gen_prog.shrink_candidates(case["prog"]):
            yield dict(case, prog=p)
    else:
        for c in gen_ssb.shrink_candidates(case):
            if gen_ssb.well_formed(c)[0]:
                yield c
