"""C04 - every parameter value survives print -> parse; literal spellings mean what the spec says."""
from __future__ import annotations

from hypothesis import strategies as st

from vf import model, reflit, spec_tables as T
from vf.core import Failure, call_guard, weighted
from vf.cut import compile_text, compile_ssbs, decompile, decompile_ssbs

ID = "C04"
LEVEL = "exploration"
RULE = (
    "direction 1 (print -> parse): parameter values as a binary reader delivers them - ints, fixed-point k/256 via "
    "from_float and as written, constants, constant strings over an alphabet biased to quotes, backslashes, newlines, "
    "leading/trailing blanks and both triple-quote sequences, language strings (1-5 languages), position marks with "
    "half-tile offsets 0/2/4 - printed (a) by the real ExplorerScript decompiler as op argument, case menu() header, "
    "CaseText/DefaultText, inside 0-3 nested if blocks, (b) by the real SsbScript decompiler, (c) via str(param) with "
    "param.indent = 0..4 in a template that mimics the writers; the text is compiled and the parameter compared by "
    "value. direction 2 (literal -> value): integer spellings in 4 bases, decimals with leading/trailing zeros, -0, "
    "missing whole part, single-line strings in both quote styles with the documented escapes, triple-quoted strings "
    "with arbitrary first-line text / indentation / closing-line form, compared with the reference literal reader "
    "written from the specification. Non-trivial: string with newline, quote or backslash or depth >= 1; number "
    "negative / non-decimal / with redundant zeros; mark with half-tile offset. Distinct by content hash."
)
ASSUMPTIONS = [
    "position-mark names are identifier-like (a binary SSB has no mark names; readers invent m0, m1, ...)",
    "language names are identifiers; constants are identifiers or $-variables, never reserved words",
    "tabs as indentation of a literal are not generated (the dedent rules speak of whitespace, the reader counts spaces); \\t, \\f, \\r, \\v and the Unicode line separators ARE generated as string content (strings with \\r have no exact literal: known finding F-C04-3)",
    "dungeon-mode leniency: a number 0..3 may come back as its configured constant (only in flag_SetDungeonMode / SwitchDungeonMode cases)",
]
CASES = {"quick": 12800, "thorough": 300000}

NASTY = ["\f", "\t", "\u2028", "\x0b", "\u2029", "\x85", "\x1c", "\x1d", "\x1e", "'", '"', "\\", "\n", " ", "  ", "'''", '"""', "\\n", "\\'", '\\"', "n", "a", "B", "é", "{", "}", ",", "=", "//", "/*", "*/", "[c]", "\\\\", "0", "~", "@", "$x", ";"]
IDENT = ["ACTOR_PLAYER", "CONST_A", "lower_case", "_u", "X1", "$SCENARIO_MAIN", "$x", "$Var_1", "LEVEL_S01P01A"]
LANGS = ["english", "french", "german", "italian", "spanish", "japanese", "l2"]

nasty_text = st.lists(st.sampled_from(NASTY), max_size=10).map("".join)
lines_text = st.lists(st.one_of(nasty_text, st.sampled_from(["", " ", "   x", "x  ", "    ", "line"])), min_size=2, max_size=5).map("\n".join)
# every line starts with a blank (the reader of multi-line literals strips the indentation all lines share) - crossed
# with everything the nasty alphabet holds, incl. the characters str.splitlines() takes for line ends
# (backslash sequences and form feeds are left out here: together with "every line indented" they are the known finding)
_calm_text = st.lists(st.sampled_from([x for x in NASTY if "\\" not in x and x != "\f"]), max_size=8).map("".join)
indented_lines_text = st.lists(st.tuples(st.integers(1, 3), _calm_text).map(lambda t: " " * t[0] + t[1]), min_size=2, max_size=4).map("\n".join)
_plain_text = st.text(alphabet=st.characters(codec="utf-8", exclude_categories=("Cs", "Cc")), max_size=8)
# a carriage return anywhere leaves the string without an exact literal (known finding F-C04-3): generated, but rarely
_cr_text = st.tuples(nasty_text, st.sampled_from(["\r", "\r\n", "\n\r"]), nasty_text).map("".join)
any_text = weighted((6, nasty_text), (6, lines_text), (4, indented_lines_text), (4, _plain_text), (1, _cr_text))


def value_strategy():
    ints = st.one_of(st.integers(-40, 400), st.integers(-(2**15), 2**15 - 1), st.integers(-(10**9), 10**9))
    fixed_float = st.integers(-64 * 256, 64 * 256 - 1).map(lambda k: {"t": "fixf", "k": k})
    fixed_str = st.tuples(st.sampled_from(["", "-"]), st.sampled_from(["0", "1", "12", "63", "007", "00", "", "127", "9007199254740993", "18446744073709551617", "0" * 20 + "1"]),
                          st.sampled_from(["0", "5", "50", "05", "125", "996", "000", "10", "9" * 16, "9" * 17, "9" * 30, "0000001", "00000025", "0" * 9, "12345678901234567890", "000000000000000000001"])).map(
        lambda t: {"t": "fixs", "v": f"{t[0]}{t[1] or '0'}.{t[2]}"})
    const = st.sampled_from(IDENT).map(lambda n: {"t": "const", "v": n})
    string = any_text.map(lambda s: {"t": "str", "v": s})
    lang = st.lists(st.tuples(st.sampled_from(LANGS), any_text), min_size=1, max_size=5, unique_by=lambda t: t[0]).map(lambda l: {"t": "lang", "v": [list(x) for x in l]})
    pos = st.tuples(st.sampled_from(["m0", "m1", "Mark_2", "pos"]), st.integers(-5, 300), st.sampled_from([0, 0, 2, 4]), st.integers(-5, 300), st.sampled_from([0, 0, 2, 4])).map(
        lambda t: {"t": "pos", "name": t[0], "x": t[1], "xo": t[2], "y": t[3], "yo": t[4]})
    return weighted((1, ints.map(lambda v: {"t": "int", "v": v})), (1, fixed_float), (1, fixed_str), (1, const), (3, string), (2, lang), (1, pos))


def literal_strategy():
    sign = st.sampled_from(["", "-"])
    integer = st.one_of(
        st.tuples(sign, st.integers(0, 10**6)).map(lambda t: t[0] + str(t[1])),
        st.tuples(sign, st.sampled_from(["0x", "0X"]), st.integers(0, 10**6), st.booleans(), st.sampled_from([0, 1, 2, 3, 0, 1, 2, 3, 40, 5000])).map(lambda t: t[0] + t[1] + "0" * t[4] + (format(t[2], "X") if t[3] else format(t[2], "x"))),
        st.tuples(sign, st.sampled_from(["0o", "0O"]), st.integers(0, 10**6), st.integers(0, 3)).map(lambda t: t[0] + t[1] + "0" * t[3] + format(t[2], "o")),
        st.tuples(sign, st.sampled_from(["0b", "0B"]), st.integers(0, 10**6), st.integers(0, 3)).map(lambda t: t[0] + t[1] + "0" * t[3] + format(t[2], "b")),
        st.tuples(sign, st.integers(1, 5)).map(lambda t: t[0] + "0" * t[1]),
    ).map(lambda s: {"lit": "int", "text": s})
    decimal = st.tuples(sign, st.sampled_from(["", "0", "00", "1", "01", "0012", "63", "10", "100", "9007199254740993", "123456789012345678901234567890", "0" * 700 + "3", "0" * 5000 + "12", "0" * 5000]),
                        st.sampled_from(["0", "5", "50", "05", "00", "125", "9960", "000", "9" * 17, "0000001", "0" * 10, "98765432109876543210"])).map(
        lambda t: {"lit": "dec", "text": f"{t[0]}{t[1]}.{t[2]}"})
    # single line: body characters, with documented escapes and other backslash sequences
    piece = st.sampled_from(["a", "B", " ", "\\n", "\\'", '\\"', "\\\\", "\\t", "\\x", "'", '"', "é", "{", "//", "/*", "\\ ", "n"])
    single = st.tuples(st.sampled_from(["'", '"']), st.lists(piece, max_size=10)).map(lambda t: {"lit": "single", "q": t[0], "parts": t[1]})
    mline = st.sampled_from(["", "a", "  b", "x  ", "    ", " ", "'q'", '"', "\\n", "c d", "      deep", "''", '""'])
    multi = st.tuples(st.sampled_from(["'''", '"""']), st.lists(mline, min_size=1, max_size=6)).map(lambda t: {"lit": "multi", "q": t[0], "lines": t[1]})
    return weighted((1, integer), (1, decimal), (2, single), (3, multi))


def strategy(tier):
    d1 = st.fixed_dictionaries({"dir": st.just(1), "value": value_strategy(), "ctx": st.sampled_from(["exps_op", "exps_op", "ssbs_op", "menu", "casetext", "defaulttext", "template", "template", "flag"]),
                                "depth": st.integers(0, 4), "pos": st.integers(0, 2), "crlf": st.sampled_from([False, False, False, True])})
    d2 = st.fixed_dictionaries({"dir": st.just(2), "literal": literal_strategy(), "ctx": st.sampled_from(["arg", "lang", "menu", "msgcase", "posmark", "posmark_ssbs", "scn_assign", "scn_cond", "bit_index"]), "indent": st.integers(0, 3), "crlf": st.sampled_from([False, False, False, True])})
    return weighted((2, d1), (1, d2))


# --------------------------------------------------------------------------------------
def build_param(v):
    from explorerscript.ssb_converting import ssb_data_types as D

    t = v["t"]
    if t == "int":
        return v["v"]
    if t == "fixf":
        return D.SsbOpParamFixedPoint.from_float(v["k"] / 256)
    if t == "fixs":
        return D.SsbOpParamFixedPoint.from_str(v["v"])
    if t == "const":
        return D.SsbOpParamConstant(v["v"])
    if t == "str":
        return D.SsbOpParamConstString(v["v"])
    if t == "lang":
        return D.SsbOpParamLanguageString({a: b for a, b in v["v"]})
    if t == "pos":
        return D.SsbOpParamPositionMarker(v["name"], v["xo"], v["yo"], v["x"], v["y"])
    raise ValueError(t)


def is_nontrivial_value(v, depth):
    t = v["t"]
    if t in ("str",):
        s = v["v"]
        return depth >= 1 or any(c in s for c in "\n'\"\\")
    if t == "lang":
        return depth >= 1 or any(any(c in s for c in "\n'\"\\") for _, s in v["v"])
    if t == "int":
        return v["v"] < 0
    if t in ("fixf", "fixs"):
        return True
    if t == "pos":
        return v["xo"] > 1 or v["yo"] > 1
    return depth >= 1


def mk_op(offset, name, params):
    from explorerscript.ssb_converting.ssb_data_types import SsbOpCode, SsbOperation

    return SsbOperation(offset, SsbOpCode(-1, name), list(params))


def routine_infos(n=1):
    from explorerscript.ssb_converting.ssb_data_types import SsbRoutineInfo, SsbRoutineType

    return [SsbRoutineInfo(SsbRoutineType.GENERIC, 0) for _ in range(n)]


def find_param(comp, opname, idx):
    for r in comp.routine_ops:
        for op in r:
            if op.op_code.name == opname:
                return op.params[idx]
    raise LookupError(opname)


def evaluate(case, stt):
    if case["dir"] == 1:
        return eval_print_parse(case, stt)
    return eval_literal(case, stt)


def _eol(text, case, stt):
    """the text as a file saved with CR LF line ends (an editor on Windows, git autocrlf): the same tokens, and the
    reader of multi-line literals takes CR LF for one line break"""
    if case.get("crlf") and "\r" not in text:
        stt.count("source_with_crlf_line_ends")
        return text.replace("\n", "\r\n")
    return text


def eval_print_parse(case, stt):
    from explorerscript.ssb_converting import ssb_data_types as D

    fails = []
    v, ctx, depth = case["value"], case["ctx"], case["depth"]
    t = v["t"]
    stt.count("value:" + t)
    stt.count("ctx:" + ctx)
    param = build_param(v)
    expected = model.norm_real_param(build_param(v))
    is_str = t in ("str", "lang")
    # choose a printing context that admits this kind of value
    if ctx in ("menu", "casetext", "defaulttext") and not is_str:
        ctx = "exps_op"
    if ctx == "flag" and t not in ("int", "const", "fixf", "fixs"):
        ctx = "exps_op"
    text = None
    opname, pidx = "TestOp", case["pos"]
    filler = [7, D.SsbOpParamConstant("FILL")]
    params = filler[: case["pos"]] + [param] + filler[case["pos"]:]
    if ctx == "exps_op":
        # nested if blocks around the op: Branch -> body, as the compiler lays them out
        d = min(depth, 3)
        ops = []
        off = 0
        for i in range(d):
            # Branch $V_i == 1 -> body (offset+2) ; Jump -> end
            ops.append(("Branch", [D.SsbOpParamConstant(f"$V_{i}"), 1], "body", i))
            ops.append(("Jump", [], "end", i))
        routine = []
        # layout: for nesting we emit  Branch_i -> L_i ; Jump -> END ; L_i: ...
        n_header = 2 * d
        end_off = n_header + 1
        for i in range(d):
            routine.append(mk_op(2 * i, "Branch", [D.SsbOpParamConstant(f"$V_{i}"), 1, 2 * i + 2]))
            routine.append(mk_op(2 * i + 1, "Jump", [end_off]))
        routine.append(mk_op(n_header, opname, params))
        routine.append(mk_op(end_off, "End", []))
        out, exc = call_guard(lambda: decompile(routine_infos(), [routine], []))
        if exc is not None:
            stt.count("decompile_raised")  # C06's business
            return fails
        text = out[0]
        stt.count(f"exps_depth:{d}")
    elif ctx == "ssbs_op":
        routine = [mk_op(0, opname, params), mk_op(1, "End", [])]
        out, exc = call_guard(lambda: decompile_ssbs(routine_infos(), [routine], []))
        if exc is not None:
            fails.append(Failure("ssbs_print:" + exc[0], exc[1]))
            return fails
        text = _eol(out[0], case, stt)
        comp, exc = call_guard(lambda: compile_ssbs(text))
        if exc is not None:
            fails.append(Failure(bucket_for("rejected", "ssbs_op", v), f"SsbScript compiler rejects the printed text: {exc[1]}\n{text}"))
            return fails
        got = model.norm_real_param(find_param(comp, opname, pidx))
        return compare(expected, got, v, text, "ssbs_op", fails, stt, depth)
    elif ctx == "menu":
        opname, pidx = "CaseMenu", 0
        routine = [mk_op(0, "message_SwitchMenu", [1, 2]), mk_op(1, "CaseMenu", [param, 4]), mk_op(2, "Jump", [5]), mk_op(4, "x", []), mk_op(5, "End", [])]
        out, exc = call_guard(lambda: decompile(routine_infos(), [routine], []))
        if exc is not None:
            stt.count("decompile_raised")
            return fails
        text = out[0]
    elif ctx in ("casetext", "defaulttext"):
        if ctx == "casetext":
            opname, pidx = "CaseText", 1
            routine = [mk_op(0, "message_SwitchTalk", [D.SsbOpParamConstant("$V")]), mk_op(1, "CaseText", [3, param]), mk_op(2, "DefaultText", [D.SsbOpParamConstString("d")]), mk_op(3, "End", [])]
        else:
            opname, pidx = "DefaultText", 0
            routine = [mk_op(0, "message_SwitchMonologue", [D.SsbOpParamConstant("$V")]), mk_op(1, "CaseText", [3, D.SsbOpParamConstString("c")]), mk_op(2, "DefaultText", [param]), mk_op(3, "End", [])]
        out, exc = call_guard(lambda: decompile(routine_infos(), [routine], []))
        if exc is not None:
            stt.count("decompile_raised")
            return fails
        text = out[0]
    elif ctx == "flag":
        opname, pidx = "flag_Set", 1
        routine = [mk_op(0, "flag_Set", [D.SsbOpParamConstant("$V"), param]), mk_op(1, "End", [])]
        out, exc = call_guard(lambda: decompile(routine_infos(), [routine], []))
        if exc is not None:
            stt.count("decompile_raised")
            return fails
        text = out[0]
    else:  # template: str(param) with the indent the writers would set, at block depth `depth`
        ind = depth + 1
        if hasattr(param, "indent"):
            param.indent = ind
        lines = ["def 0 {"]
        for i in range(depth):
            lines.append("    " * (i + 1) + f"if ( $V_{i} == 1 ) {{")
        args = ", ".join(str(p) for p in params)
        lines.append("    " * ind + f"{opname}({args});")
        for i in range(depth - 1, -1, -1):
            lines.append("    " * (i + 1) + "}")
        lines.append("    end;")
        lines.append("}")
        text = "\n".join(lines) + "\n"
    text = _eol(text, case, stt)
    comp, exc = call_guard(lambda: compile_text(text))
    if exc is not None:
        fails.append(Failure(bucket_for("rejected", ctx, v), f"compiler rejects the printed text: {exc[1]}\n{text}"))
        return fails
    try:
        got = model.norm_real_param(find_param(comp, opname, pidx))
    except (LookupError, IndexError):
        fails.append(Failure(f"lost:{ctx}", f"op {opname} / parameter {pidx} not found after recompiling\n{text}"))
        return fails
    return compare(expected, got, v, text, ctx, fails, stt, depth)


import re as _re

_AMBIG = _re.compile(r"""\\(?:[n'"]|$)""")
KF_UNSPELLABLE = "kf_backslash_no_exact_spelling"


def unspellable(s: str) -> bool:
    """Known finding F-C04-3: the language has no literal for this string. Single-line literals read
    backslash-n, backslash-quote as escapes, can not end in a backslash and can not contain a raw carriage return or
    form feed; triple-quoted literals are verbatim but can not contain their own delimiter (nor end in its quote
    character), lose the indentation common to all lines and read a carriage return as a line end."""
    if "\r" in s:
        return True
    if not (_AMBIG.search(s) or "\f" in s):
        return False
    if "\n" not in s:
        return not any(d not in s and not s.endswith(d[0]) for d in ("'''", '"""'))
    return ("'''" in s and '"""' in s) or all(ln.startswith(" ") for ln in s.split("\n"))


def kind_sig(v):
    """Narrow shape signature of a value (bucket key)."""
    t = v["t"]
    if t == "str" and unspellable(v["v"]):
        return KF_UNSPELLABLE
    if t == "lang" and any(unspellable(s) for _, s in v["v"]):
        return KF_UNSPELLABLE
    if t == "str":
        return "str:" + str_sig(v["v"])
    if t == "lang":
        sigs = sorted({str_sig(s) for _, s in v["v"]})
        return "lang:" + "+".join(s for s in sigs if s != "plain") if any(s != "plain" for s in sigs) else "lang:plain"
    return t


def bucket_for(what, ctx, v):
    sig = kind_sig(v)
    if sig == KF_UNSPELLABLE:
        return KF_UNSPELLABLE
    return f"{what}:{ctx}:{sig}"


def str_sig(s):
    multi = "\n" in s
    lines = s.split("\n")
    if multi:
        if "'''" in s and '"""' in s:
            return "ml_both_triple_quotes"
        if s.endswith("\\"):
            return "ml_ends_with_backslash"
        if s.endswith("\n") or s.startswith("\n"):
            return "ml_leading_or_trailing_newline"
        if all(ln.startswith(" ") for ln in lines if ln != "") and any(ln != "" for ln in lines):
            return "ml_all_lines_indented"
        if any(ln.strip(" ") == "" for ln in lines):
            return "ml_blank_line"
        if lines[-1] != lines[-1].lstrip(" "):
            return "ml_last_line_indented"
        if "'''" in s or '"""' in s:
            return "ml_triple_quote"
        return "ml_other"
    if s.endswith("\\"):
        return "sl_ends_with_backslash"
    if "\\n" in s:
        return "sl_backslash_n"
    if "\\'" in s or '\\"' in s:
        return "sl_backslash_quote"
    if "\\" in s:
        return "sl_backslash"
    return "plain"


def compare(expected, got, v, text, ctx, fails, stt, depth):
    if is_nontrivial_value(v, depth):
        stt.mark_nontrivial([v, ctx, depth])
    if expected != got:
        fails.append(Failure(bucket_for("value", ctx, v), f"printed {expected!r} came back as {got!r}\n{text}"))
    elif len(stt.samples) < 3 and v["t"] in ("str", "lang") and is_nontrivial_value(v, depth):
        stt.sample({"value": v, "context": ctx, "depth": depth, "printed": text[:500]})
    return fails


# --------------------------------------------------------------------------------------
def literal_text(lit):
    k = lit["lit"]
    if k in ("int", "dec"):
        return lit["text"]
    if k == "single":
        q = lit["q"]
        body = "".join(p for p in lit["parts"] if p != q)  # an unescaped own quote would end the literal
        if body.endswith("\\") and not body.endswith("\\\\"):
            body += "x"
        # a trailing odd backslash would escape the closing quote
        n = len(body) - len(body.rstrip("\\"))
        if n % 2 == 1:
            body += " "
        return q + body + q
    q = lit["q"]
    lines = [ln.replace(q, "") for ln in lit["lines"]]
    body = "\n".join(lines)
    if body.endswith(q[0]):
        body += " "
    return q + body + q


def reference_value(lit, text):
    k = lit["lit"]
    if k == "int":
        return reflit.read_int(text)
    if k == "dec":
        return ("d", model.norm_decimal_text(text))
    return ("s", reflit.read_string_literal(text))


def eval_literal(case, stt):
    fails = []
    lit = case["literal"]
    text = literal_text(lit)
    k = lit["lit"]
    stt.count("literal:" + k)
    ctx = case["ctx"]
    pad = "    " * case["indent"]
    if k in ("int", "dec") and ctx in ("posmark", "posmark_ssbs"):
        return eval_posmark_literal(lit, text, ctx, pad, stt)
    if k == "int" and ctx in ("scn_assign", "scn_cond", "bit_index"):
        return eval_bracket_int(lit, text, ctx, pad, case, stt)
    if k in ("int", "dec") or ctx == "arg":
        src = f"def 0 {{\n{pad}TestOp({text});\n}}\n"
        getter = lambda c: find_param(c, "TestOp", 0)  # noqa
    elif ctx == "lang":
        src = f"def 0 {{\n{pad}TestOp({{\n{pad}    english={text},\n{pad}}});\n}}\n"
        getter = lambda c: find_param(c, "TestOp", 0)  # noqa
    elif ctx == "menu":
        src = f"def 0 {{\n{pad}switch (message_SwitchMenu(1, 2)) {{\n{pad}    case menu({text}):\n{pad}        x();\n{pad}}}\n}}\n"
        getter = lambda c: find_param(c, "CaseMenu", 0)  # noqa
    else:
        src = f"def 0 {{\n{pad}message_SwitchTalk ($V) {{\n{pad}    case 1:\n{pad}        {text}\n{pad}}}\n}}\n"
        getter = lambda c: find_param(c, "CaseText", 1)  # noqa
    try:
        ref = reference_value(lit, text)
    except ValueError:
        return fails
    src = _eol(src, case, stt)
    comp, exc = call_guard(lambda: compile_text(src))
    if exc is not None:
        fails.append(Failure(f"literal_rejected:{k}", f"grammatical literal {text!r} rejected: {exc[1]}\n{src}"))
        return fails
    got = model.norm_real_param(getter(comp))
    if ctx == "lang" and k not in ("int", "dec"):
        got = ("s", dict(got[1]).get("english")) if got[0] == "l" else got
    nontrivial = (k == "int" and (text.startswith("-") or len(text) > 1 and text.lstrip("-")[:2].lower() in ("0x", "0o", "0b"))) or k == "dec" or (
        k in ("single", "multi") and any(c in text[1:-1] for c in "\n\\"))
    if nontrivial or k == "multi":
        stt.mark_nontrivial([text, ctx])
    if got != ref:
        fails.append(Failure(f"literal_value:{k}:{lit_sig(lit, text)}", f"literal {text!r} should mean {ref!r}, compiled to {got!r}"))
    elif len(stt.samples) < 5 and k == "multi":
        stt.sample({"literal": text, "value": ref[1]})
    return fails


def eval_bracket_int(lit, text, ctx, pad, case, stt):
    """an INTEGER literal in the bracket syntaxes that take bare integer tokens: `X = scn[a, b];`, `if (scn(X) == [a, b])`,
    `if (X[i])` / `X[i] = 1;`"""
    fails = []
    try:
        want = reflit.read_int(text)
    except ValueError:
        return fails
    stt.count("literal_in_brackets:" + ctx)
    if ctx == "scn_assign":
        src = f"def 0 {{\n{pad}$V_1 = scn[{text}, 3];\n{pad}$V_2 = scn[4, {text}];\n}}\n"
        probes = [("flag_SetScenario", 1, 0), ("flag_SetScenario", 2, 1)]
    elif ctx == "scn_cond":
        src = f"def 0 {{\n{pad}if (scn($V_1) == [{text}, 3]) {{ a(); }}\n{pad}if (scn($V_2) > [4, {text}]) {{ b(); }}\n}}\n"
        probes = [("BranchScenarioNow", 1, 0), ("BranchScenarioAfter", 2, 0)]
    else:
        src = f"def 0 {{\n{pad}if ($V_1[{text}]) {{ a(); }}\n{pad}$V_2[{text}] = 1;\n}}\n"
        probes = [("BranchBit", 1, 0), ("flag_CalcBit", 1, 0)]
    src = _eol(src, case, stt)
    comp, exc = call_guard(lambda: compile_text(src))
    if exc is not None:
        if want < 0 and exc[1].startswith(("SsbCompilerError:", "ParseError:", "ValueError:")):
            return fails  # negative levels / indexes may be refused
        fails.append(Failure(f"literal_rejected:int:{ctx}", f"integer literal {text!r} rejected: {exc[1]}\n{src}"))
        return fails
    stt.mark_nontrivial([text, ctx])
    for opname, pidx, nth in probes:
        ops = [op for r in comp.routine_ops for op in r if op.op_code.name == opname]
        if len(ops) <= nth:
            fails.append(Failure(f"lost:{ctx}", f"{opname} not found\n{src}"))
            break
        got = model.norm_real_param(ops[nth].params[pidx])
        if got != want:
            fails.append(Failure(f"literal_value:int:{ctx}", f"integer literal {text!r} should mean {want}, {opname} parameter {pidx} is {got!r}\n{src}"))
            break
    return fails


def eval_posmark_literal(lit, text, ctx, pad, stt):
    """an INTEGER / DECIMAL literal as coordinate of a position mark (language_spec: whole tile, or '.5' = half tile)"""
    from vf.cut import compile_ssbs

    fails = []
    k = lit["lit"]
    stt.count("literal_in_position_mark:" + k)
    if ctx == "posmark":
        src = f"def 0 {{\n{pad}TestOp(Position<'m', {text}, 3.5>);\n}}\n"
        comp, exc = call_guard(lambda: compile_text(src))
    else:
        src = f"def 0 {{\n{pad}TestOp(Position<'m', {text}, 3.5>);\n{pad}Return();\n}}\n"
        comp, exc = call_guard(lambda: compile_ssbs(src))
    if k == "int":
        try:
            want = (reflit.read_int(text), False)
        except ValueError:
            return fails
    else:
        neg = text.startswith("-")
        whole, frac = text.lstrip("-").split(".", 1)
        fr = frac.rstrip("0")
        if fr not in ("", "5"):
            # documented restriction: only whole and half tiles
            if exc is None:
                fails.append(Failure(f"posmark_literal_accepted:{ctx}", f"{text!r} is neither a whole nor a half tile but was accepted\n{src}"))
            elif not exc[1].startswith(("SsbCompilerError:", "ParseError:")):
                fails.append(Failure(f"posmark_literal_crash:{ctx}:{exc[0]}", f"{exc[1]}\n{src}"))
            return fails
        w = int(whole.lstrip("0") or "0")  # (digits beyond the interpreter's int-from-text limit are all zeros here)
        want = (-w if neg else w, fr == "5")
    stt.mark_nontrivial([text, ctx])
    if exc is not None:
        fails.append(Failure(f"literal_rejected:{k}:{ctx}", f"grammatical coordinate literal {text!r} rejected: {exc[1]}\n{src}"))
        return fails
    got = model.norm_real_param(find_param(comp, "TestOp", 0))
    if got != ("p", "m", want[0], 3, want[1], True):
        fails.append(Failure(f"literal_value:{k}:{ctx}", f"coordinate literal {text!r} should mean {want!r}, compiled to {got!r}\n{src}"))
    return fails


def lit_sig(lit, text):
    if lit["lit"] != "multi":
        return "x"
    lines = text[3:-3].split("\n")
    if len(lines) == 1:
        return "one_line"
    if any(ln.strip(" ") == "" for ln in lines[1:-1]):
        return "blank_middle_line"
    return "other"
