"""C05 - a macro call means its body inlined, in any definition order and file layout (DESIGN.md 4, C05)."""
from __future__ import annotations

import copy
import os

from hypothesis import strategies as st

from vf import canon, gen_macro, gen_prog, model, render
from vf.core import Failure, call_guard
from vf.cut import compile_text_budget as compile_text

ID = "C05"
LEVEL = "translation_validation"
RULE = (
    "acyclic macro sets (1-6 macros: chains, diamonds, shared callees, depth up to 4; 0-3 parameters used in operation, "
    "header, assignment and context positions; returns inside ifs; private labels; nested calls forwarding parameters) "
    "called from 1-4 routines; definition order is a drawn permutation interleaved with the routines; the macros are "
    "spread over 1-4 files in a scratch directory (same dir, sub dir, parent dir, absolute path, lookup paths 1-3 with "
    "decoy files of the same name in LATER lookup paths). Oracles: (a) M(compile(P)) is trace-tree equal to "
    "S(inline(P)) with the reference inliner (body copied, parameters substituted, labels renamed per expansion, return "
    "-> jump to the end of the expansion), routine tables equal; (b) the single-file canonical order and the drawn "
    "order / file distribution compile to op-for-op equal results; (c) no op named DECOY may appear (imports resolved "
    "to the first lookup path); (d) multi-file cases: the compiler object that has just compiled one of the imported files "
    "compiles the main file to the same ops (a workspace build). Non-trivial = call depth >= 2 or a macro with callees of different depth, or a return / "
    "label inside a macro, or >= 2 files; distinct by content hash."
    ' An environment stage (4 / 12 child interpreters under the C locale with UTF-8 mode off) compiles a project whose imported files hold non-ASCII strings and compares the ops with those computed here. Lookup directories are listed in a drawn order; a third of the workspaces reach the main file through a symbolic link.'
)
ASSUMPTIONS = [
    "the performance-progress constant is never passed through a macro parameter; macro bodies do not use a free constant named like a parameter (variable capture is not specified)",
    "macro bodies are self-contained: no break / continue / break_loop referring to a construct of the caller, labels are used only inside the macro that defines them",
]
CASES = {"quick": 4800, "thorough": 50000}


def strategy(tier):
    from vf.core import weighted

    return weighted((1, gen_macro.macro_programs(single_file=True)), (2, gen_macro.macro_programs(single_file=False)))


def canonical_single_file(macros, routines):
    """All macros in one file, callees first."""
    return {"imports": [], "macros": copy.deepcopy(macros), "routines": copy.deepcopy(routines)}


def evaluate(case, stt):
    if case.get("kind") == "environment":
        r = env_compare(case["files"])
        return [Failure(r[0], r[1])] if r else []
    fails = []
    multi = bool(case.get("multi"))
    if multi:
        all_macros = case["all_macros"]
        routines = case["main"]["routines"]
    else:
        all_macros = case["macros"]
        routines = case["routines"]
    cg = gen_macro.call_graph(all_macros)
    depths = {m["name"]: gen_macro.depth_of(m["name"], cg) for m in all_macros}
    maxdepth = max(depths.values(), default=0)
    diff_depth = any(len({depths[c] for c in cs}) >= 2 for cs in cg.values())
    has_ret_or_label = any(_has(m["body"], lambda s: (s["k"] == "ctl" and s["v"] == "return") or s["k"] == "label") for m in all_macros)
    nfiles = 1 + (len(case["files"]) if multi else 0)
    stt.count(f"depth:{min(maxdepth, 4)}")
    stt.count(f"files:{nfiles}")
    if diff_depth:
        stt.count("callees_of_different_depth")
    if has_ret_or_label:
        stt.count("return_or_label_in_macro")
    nontrivial = maxdepth >= 2 or diff_depth or has_ret_or_label or nfiles >= 2

    # reference: inline, then S
    full = {"imports": [], "macros": all_macros, "routines": routines}
    try:
        inl = gen_macro.inline_program(full, {m["name"]: m for m in all_macros})
        gs, table_s = model.source_graph(inl)
        gs.reachable_stats()
    except model.OpFreeCycle:
        stt.count("discard_op_free_cycle")
        return fails
    except (gen_macro.InlineError, model.SemanticsError) as e:
        stt.count("discard_generator_slip")
        stt.add("slip:" + type(e).__name__)
        return fails

    # the drawn layout
    if multi:
        with gen_macro.Workspace(case, _render_file) as ws:
            main_text = ws.texts[case["main_path"]]
            comp, exc = call_guard(lambda: compile_text(main_text, ws.main_path, ws.lookup_paths))
            shown = "\n".join(f"=== {p}\n{t}" for p, t in ws.texts.items())
            # (d) a workspace build: ONE compiler object compiles an imported file, then the main file
            shared, shared_exc, lib = None, None, None
            if exc is None and case["files"]:
                lib = case["files"][len(main_text) % len(case["files"])]["path"]
                shared, shared_exc = call_guard(lambda: _workspace_build(ws, lib, main_text))
    else:
        main_text = render.render(case).text
        comp, exc = call_guard(lambda: compile_text(main_text))
        shown = main_text
    if exc is not None:
        shape = "diff_depth" if diff_depth else f"depth{min(maxdepth, 3)}"
        fails.append(Failure(f"rejected:{exc[0]}:{shape}", f"acyclic macro program rejected: {exc[1]}\n{shown}"))
        return fails
    stt.add("programs")
    if nontrivial:
        stt.mark_nontrivial(case)
        stt.add("disagreements_checked", 0)
    if multi and lib is not None:
        stt.count("workspace_build_with_one_compiler_object")
        if shared_exc is not None:
            fails.append(Failure(f"workspace_build:rejected:{shared_exc[0]}", f"the compiler object that had compiled {lib} before rejects the main file: {shared_exc[1]}\n{shown}"))
        else:
            d = canon.first_diff(canon.canon_ops(comp.routine_ops), canon.canon_ops(shared.routine_ops), "ops")
            if d:
                fails.append(Failure("workspace_build:ops_differ", f"main file compiled by the compiler object that had compiled {lib} before: {d}\n{shown}"))
    # (c) decoys
    for r in comp.routine_ops:
        for op in r:
            if op.op_code.name == "DECOY":
                fails.append(Failure("import_resolution:decoy", f"an import was resolved to a file in a later lookup path\n{shown}"))
                return fails
    # (a) behaviour
    try:
        gm = model.machine_graph(comp.routine_ops)
        ok, msg, pairs = model.equivalent(gs, gm)
    except model.ModelError as e:
        fails.append(Failure("malformed_output", f"{e}\n{shown}"))
        return fails
    except model.OpFreeCycle:
        fails.append(Failure("output_op_free_cycle", shown))
        return fails
    stt.add("paths_pairs", pairs)
    if not ok:
        fails.append(Failure("behaviour", f"{msg}\n{shown}"))
    table_m = model.real_routine_table(comp.routine_infos, comp.named_coroutines)
    if table_m != table_s:
        fails.append(Failure("routine_table", f"{table_s} vs {table_m}"))
    # (b) canonical single file, callees first
    canon_prog = canonical_single_file(all_macros, routines)
    ctext = render.render(canon_prog).text
    comp2, exc2 = call_guard(lambda: compile_text(ctext))
    if exc2 is not None:
        fails.append(Failure(f"canonical_rejected:{exc2[0]}", f"{exc2[1]}\n{ctext}"))
    else:
        d = canon.first_diff(canon.canon_ops(comp2.routine_ops), canon.canon_ops(comp.routine_ops), "ops")
        if d:
            fails.append(Failure("order_or_layout_changes_ops", f"{d}\n--- canonical:\n{ctext}\n--- drawn:\n{shown}"))
    if len(stt.samples) < 2 and nontrivial and maxdepth >= 2 and not fails:
        stt.sample({"files": shown[:2000]})
    return fails


def _render_file(p):
    """every other file is written with drawn spellings (quote style of import paths and strings, integer bases, header
    forms); the tape is a function of the file's content"""
    import hashlib
    import json as _json

    h = hashlib.sha1(_json.dumps(p, sort_keys=True, default=str).encode()).digest()
    if h[0] % 2:
        return render.render(p, render.Tape([b * 41 + i for i, b in enumerate(h)]))
    return render.render(p)


def _workspace_build(ws, lib, main_text):
    from explorerscript.ssb_converting.ssb_compiler import ExplorerScriptSsbCompiler
    from vf import spec_tables as T
    from vf.cut import BudgetExceeded, NoAnswer, StepBudget

    c = ExplorerScriptSsbCompiler(T.PERF_VAR, ws.lookup_paths)
    try:
        with StepBudget(6_000_000):
            try:
                c.compile(ws.texts[lib], os.path.join(ws.base, lib))
            except Exception:  # noqa - whether a library file compiles as a top-level file is not the question here
                pass
            c.compile(main_text, ws.main_path)
            return c
    except BudgetExceeded:
        raise NoAnswer("workspace build did not finish within the step budget") from None


def _has(stmts, pred):
    found = [False]

    def fn(s, d):
        if pred(s):
            found[0] = True

    gen_prog.walk(stmts, fn)
    return found[0]


def shrink_candidates(case):
    if case.get("multi"):
        return
    for p in gen_prog.shrink_candidates(case):
        # keep only candidates whose calls still resolve
        names = {m["name"] for m in p["macros"]}
        ok = True

        def fn(s, d):
            nonlocal ok
            if s["k"] == "mcall" and s["name"] not in names:
                ok = False

        for m in p["macros"]:
            gen_prog.walk(m["body"], fn)
        for r in p["routines"]:
            gen_prog.walk(r["body"], fn)
        if ok:
            if "order" in p:
                p = dict(p)
                p.pop("order")
            yield p


# --------------------------------------------------------------------------------------
# environment stage: the same files compiled by an interpreter whose locale encoding is not UTF-8
# --------------------------------------------------------------------------------------
_STRINGS = ["Pok\u00e9mon", "\u65e5\u672c\u8a9e\u306e\u30c6\u30ad\u30b9\u30c8", "na\u00efve \u2013 caf\u00e9", "\u00c4\u00d6\u00dc\u00df \u20ac", "\u0416\u0443\u043a", "Cafe\u0301 \U0001f600"]


def env_compare(files: dict, stats=None):
    """-> (bucket, message) or None. files: relative path -> text; proj/main.exps is compiled with look/ as lookup path."""
    import json
    import shutil
    import subprocess
    import sys
    import tempfile

    from vf import localeproc
    from vf.core import REPO, VERIF

    d = tempfile.mkdtemp(prefix="vf-c05env-")
    try:
        for rel, text in files.items():
            os.makedirs(os.path.dirname(os.path.join(d, rel)), exist_ok=True)
            with open(os.path.join(d, rel), "w", encoding="utf-8", newline="") as fh:
                fh.write(text)
        main, look = os.path.join(d, "proj", "main.exps"), os.path.join(d, "look")
        os.makedirs(look, exist_ok=True)
        here = localeproc.result(main, [look])
        env = dict(os.environ, PYTHONPATH=str(REPO) + os.pathsep + str(VERIF), LC_ALL="C", LANG="C", PYTHONCOERCECLOCALE="0", PYTHONUTF8="0", PYTHONHASHSEED="0")
        env.pop("PYTHONIOENCODING", None)
        p = subprocess.run([sys.executable, "-X", "utf8=0", "-m", "vf.localeproc", main, look], capture_output=True, env=env, cwd=str(VERIF), timeout=300)
        if p.returncode != 0:
            raise RuntimeError("environment stage child failed: " + p.stderr.decode("utf-8", "replace")[-400:])
        there = json.loads(p.stdout.decode("ascii"))
        enc = str(there.pop("preferred_encoding"))
        if stats is not None:
            stats.count("child_encoding:" + enc)
        bom = files["proj/main.exps"].startswith("\ufeff")
        if here != there:
            return "environment:locale_changes_result", f"UTF-8 interpreter: {json.dumps(here)[:400]}\nC-locale interpreter ({enc}): {json.dumps(there)[:400]}"
        if "raised" in here and not bom:  # (what a BOM means to the grammar is not this stage's matter)
            return "environment:workspace_rejected", json.dumps(here)[:400]
        return None
    finally:
        shutil.rmtree(d, ignore_errors=True)


def extra(ctx):
    """ExplorerScript files are UTF-8 whatever the platform's default encoding is: a main file that imports macro files
    with non-ASCII strings (relative import, lookup-path import, two levels; CR LF and BOM variants of the main file)
    compiles to the same ops in an interpreter started under the C locale with UTF-8 mode and locale coercion off as it
    does here. A fixed family of workspaces (strings rotate with VERIF_SEED); quick 4, thorough 12 child processes."""
    from vf.core import known_buckets, write_replay

    n = 4 if ctx.tier == "quick" else 12
    kb = known_buckets(ctx.known)
    for k in range(n):
        s1 = _STRINGS[(ctx.seed + k) % len(_STRINGS)]
        s2 = _STRINGS[(ctx.seed + 2 * k + 1) % len(_STRINGS)]
        files = {
            "proj/lib/strs.exps": f'import "shared/deep.exps";\nmacro say($who) {{ message_Talk("{s1}"); ~deep($who); }}\n',
            "look/shared/deep.exps": f"macro deep($w) {{ message_Notice({{english=\"{s2}\", german='{s1}'}}); Mark(Position<'{s2[:3]}', 1, 2.5>); Use($w); }}\n",
            "proj/main.exps": f'import "./lib/strs.exps";\ndef 0 {{ ~say({k}); Own("{s2}"); end; }}\n',
        }
        if k % 2:
            files["proj/main.exps"] = "\ufeff" + files["proj/main.exps"] if k % 4 == 3 else files["proj/main.exps"].replace("\n", "\r\n")
        ctx.stats.evaluations += 1
        ctx.stats.count("environment_stage_runs")
        r = env_compare(files, ctx.stats)
        if r is not None and r[0] not in kb and not any(v[0] == r[0] for v in ctx.violations):
            path = write_replay(ID, r[0], {"kind": "environment", "files": files}, r[1])
            ctx.violations.append((r[0], path))
            print(f"  {r[0]}: {r[1][:600]}")
