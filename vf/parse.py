"""ANTLR parse tree -> vf AST (DESIGN.md 2.1).  Used to READ texts (decompiler output, replay
sources) with the reference literal reader, independent of the compile handlers.
Trusted base: the generated ANTLR parser (no ANTLR tool offline to regenerate it)."""
from __future__ import annotations

from vf import reflit


class NotExplorerScript(Exception):
    pass


def parse_tree(text: str):
    from explorerscript.explorerscript_reader import ExplorerScriptReader

    return ExplorerScriptReader(text).read()


def parse_program(text: str) -> dict:
    """Raises explorerscript.error.ParseError on syntax errors."""
    tree = parse_tree(text)
    return Builder().start(tree)


def T(tok) -> str | None:
    return None if tok is None else tok.getText()


class Builder:
    def start(self, ctx) -> dict:
        prog = {"imports": [], "macros": [], "routines": [], "order": []}
        for im in ctx.import_stmt():
            prog["imports"].append(reflit.read_single_line(T(im.STRING_LITERAL())))
        for ch in ctx.children or []:
            name = type(ch).__name__
            if name == "MacrodefContext":
                prog["order"].append(["m", len(prog["macros"])])
                prog["macros"].append(self.macrodef(ch))
            elif name == "FuncdefContext":
                prog["order"].append(["r", len(prog["routines"])])
                prog["routines"].append(self.funcdef(ch))
        return prog

    def macrodef(self, ctx) -> dict:
        return {
            "name": T(ctx.IDENTIFIER()),
            "params": [T(v) for v in ctx.VARIABLE()],
            "body": self.suite(ctx.func_suite())[1],
        }

    def suite(self, ctx):
        if ctx.func_alias() is not None:
            return True, []
        return False, [self.stmt(s) for s in ctx.stmt()]

    def funcdef(self, ctx) -> dict:
        if ctx.coro_def() is not None:
            c = ctx.coro_def()
            alias, body = self.suite(c.func_suite())
            return {"kind": "coro", "id": -1, "name": T(c.IDENTIFIER()), "target": None, "alias": alias, "body": body}
        if ctx.simple_def() is not None:
            c = ctx.simple_def()
            alias, body = self.suite(c.func_suite())
            return {"kind": "def", "id": reflit.read_int(T(c.INTEGER())), "name": None, "target": None, "alias": alias, "body": body}
        c = ctx.for_target_def()
        alias, body = self.suite(c.func_suite())
        tgt = c.for_target_def_target()
        if tgt.FOR_TARGET() is not None:
            ttype = T(tgt.FOR_TARGET())[4:]
        else:
            ttype = T(tgt.IDENTIFIER())
        return {
            "kind": "def",
            "id": reflit.read_int(T(c.INTEGER())),
            "name": None,
            "target": {"type": ttype, "val": self.integer_like(c.integer_like())},
            "alias": alias,
            "body": body,
        }

    # -- values
    def integer_like(self, ctx) -> dict:
        if ctx.INTEGER() is not None:
            return {"t": "int", "v": reflit.read_int(T(ctx.INTEGER()))}
        if ctx.DECIMAL() is not None:
            return {"t": "dec", "v": T(ctx.DECIMAL())}
        if ctx.IDENTIFIER() is not None:
            return {"t": "const", "v": T(ctx.IDENTIFIER())}
        return {"t": "const", "v": T(ctx.VARIABLE())}

    def string_value(self, ctx) -> str:
        if ctx.STRING_LITERAL() is not None:
            return reflit.read_single_line(T(ctx.STRING_LITERAL()))
        return reflit.read_multi_line(T(ctx.MULTILINE_STRING_LITERAL()))

    def string(self, ctx) -> dict:
        if ctx.string_value() is not None:
            return {"t": "str", "v": self.string_value(ctx.string_value())}
        ls = ctx.lang_string()
        d: dict[str, str] = {}
        for a in ls.lang_string_argument():
            d[T(a.IDENTIFIER())] = self.string_value(a.string_value())  # later duplicates win, as in a dict
        return {"t": "lang", "v": [[k, v] for k, v in d.items()]}

    def pos_arg(self, ctx):
        if ctx.INTEGER() is not None:
            return reflit.read_int(T(ctx.INTEGER())), False
        txt = T(ctx.DECIMAL())
        neg = txt.startswith("-")
        body = txt[1:] if neg else txt
        whole, frac = body.split(".", 1)
        w = int(whole) if whole else 0
        fr = frac.rstrip("0")
        if fr not in ("", "5"):
            raise NotExplorerScript(f"position mark argument {txt}")
        return (-w if neg else w), fr == "5"

    def arg(self, ctx) -> dict:
        if ctx.integer_like() is not None:
            return self.integer_like(ctx.integer_like())
        if ctx.string() is not None:
            return self.string(ctx.string())
        pm = ctx.position_marker()
        x, xh = self.pos_arg(pm.position_marker_arg(0))
        y, yh = self.pos_arg(pm.position_marker_arg(1))
        return {"t": "pos", "name": reflit.read_single_line(T(pm.STRING_LITERAL())), "x": x, "xh": xh, "y": y, "yh": yh}

    def arglist(self, ctx) -> list:
        if ctx is None:
            return []
        return [self.arg(a) for a in ctx.pos_argument()]

    def operation(self, ctx) -> dict:
        o = {"k": "op", "name": T(ctx.IDENTIFIER()), "args": self.arglist(ctx.arglist()), "ctx": None}
        ic = ctx.inline_ctx()
        if ic is not None:
            h = ic.ctx_header()
            o["ctx"] = {"type": T(h.IDENTIFIER()), "val": self.integer_like(h.integer_like())}
        return o

    # -- statements
    def simple(self, ctx) -> dict:
        if ctx.operation() is not None:
            return self.operation(ctx.operation())
        if ctx.label() is not None:
            return {"k": "label", "name": T(ctx.label().IDENTIFIER())}
        if ctx.cntrl_stmt() is not None:
            return {"k": "ctl", "v": ctx.cntrl_stmt().getText()}
        if ctx.jump() is not None:
            return {"k": "jump", "label": T(ctx.jump().IDENTIFIER())}
        if ctx.call() is not None:
            return {"k": "call", "label": T(ctx.call().IDENTIFIER())}
        return self.assignment(ctx.assignment())

    def value_or_int(self, ctx_value_of, ctx_int):
        if ctx_value_of is not None:
            return self.integer_like(ctx_value_of.integer_like()), True
        return self.integer_like(ctx_int), False

    def assignment(self, ctx) -> dict:
        if ctx.assignment_regular() is not None:
            a = ctx.assignment_regular()
            ils = a.integer_like()
            bit = reflit.read_int(T(a.INTEGER())) if a.INTEGER() is not None else None
            if a.value_of() is not None:
                val, vo = self.integer_like(a.value_of().integer_like()), True
            else:
                val, vo = self.integer_like(ils[1]), False
            return {"k": "assign", "form": "regular", "target": self.integer_like(ils[0]), "bit": bit,
                    "op": a.assign_operator().getText(), "val": val, "value_of": vo}
        if ctx.assignment_clear() is not None:
            return {"k": "assign", "form": "clear", "target": self.integer_like(ctx.assignment_clear().integer_like())}
        if ctx.assignment_initial() is not None:
            return {"k": "assign", "form": "init", "target": self.integer_like(ctx.assignment_initial().integer_like())}
        if ctx.assignment_reset() is not None:
            a = ctx.assignment_reset()
            if a.DUNGEON_RESULT() is not None:
                return {"k": "assign", "form": "reset_dr"}
            return {"k": "assign", "form": "reset_scn", "target": self.integer_like(a.scn_var().integer_like())}
        if ctx.assignment_adv_log() is not None:
            return {"k": "assign", "form": "advlog", "val": self.integer_like(ctx.assignment_adv_log().integer_like())}
        if ctx.assignment_dungeon_mode() is not None:
            a = ctx.assignment_dungeon_mode()
            return {"k": "assign", "form": "dmode", "target": self.integer_like(a.integer_like(0)),
                    "val": self.integer_like(a.integer_like(1))}
        a = ctx.assignment_scn()
        return {"k": "assign", "form": "scn", "target": self.integer_like(a.integer_like()),
                "a": reflit.read_int(T(a.INTEGER(0))), "b": reflit.read_int(T(a.INTEGER(1)))}

    def cond(self, ctx) -> dict:
        if ctx.if_h_op() is not None:
            h = ctx.if_h_op()
            ils = h.integer_like()
            if h.value_of() is not None:
                r, vo = self.integer_like(h.value_of().integer_like()), True
            else:
                r, vo = self.integer_like(ils[1]), False
            return {"c": "op", "l": self.integer_like(ils[0]), "op": h.conditional_operator().getText(), "r": r, "value_of": vo}
        if ctx.if_h_bit() is not None:
            h = ctx.if_h_bit()
            return {"c": "bit", "not": h.NOT() is not None, "var": self.integer_like(h.integer_like()),
                    "i": reflit.read_int(T(h.INTEGER()))}
        if ctx.if_h_negatable() is not None:
            h = ctx.if_h_negatable()
            kw = "debug" if h.DEBUG() is not None else ("edit" if h.EDIT() is not None else "variation")
            return {"c": "neg", "not": h.NOT() is not None, "kw": kw}
        if ctx.if_h_scn() is not None:
            h = ctx.if_h_scn()
            return {"c": "scn", "var": self.integer_like(h.scn_var().integer_like()), "op": h.conditional_operator().getText(),
                    "a": reflit.read_int(T(h.INTEGER(0))), "b": reflit.read_int(T(h.INTEGER(1)))}
        return {"c": "opn", "op": self.operation(ctx.operation())}

    def case_head(self, ctx) -> dict:
        if ctx.integer_like() is not None:
            return {"ch": "val", "v": self.integer_like(ctx.integer_like())}
        if ctx.case_h_menu() is not None:
            return {"ch": "menu", "s": self.string(ctx.case_h_menu().string())}
        if ctx.case_h_menu2() is not None:
            return {"ch": "menu2", "v": self.integer_like(ctx.case_h_menu2().integer_like())}
        h = ctx.case_h_op()
        if h.value_of() is not None:
            v, vo = self.integer_like(h.value_of().integer_like()), True
        else:
            v, vo = self.integer_like(h.integer_like()), False
        return {"ch": "op", "op": h.conditional_operator().getText(), "v": v, "value_of": vo}

    def switch_head(self, ctx) -> dict:
        if ctx.integer_like() is not None:
            return {"h": "var", "v": self.integer_like(ctx.integer_like())}
        if ctx.operation() is not None:
            return {"h": "op", "op": self.operation(ctx.operation())}
        if ctx.switch_h_scn() is not None:
            h = ctx.switch_h_scn()
            return {"h": "scn", "v": self.integer_like(h.scn_var().integer_like()), "i": reflit.read_int(T(h.INTEGER()))}
        if ctx.switch_h_random() is not None:
            return {"h": "random", "v": self.integer_like(ctx.switch_h_random().integer_like())}
        if ctx.switch_h_dungeon_mode() is not None:
            return {"h": "dmode", "v": self.integer_like(ctx.switch_h_dungeon_mode().integer_like())}
        return {"h": "sector"}

    def cases(self, ctx):
        """children in source order: single_case_block / default"""
        out = []
        for ch in ctx.children or []:
            name = type(ch).__name__
            if name == "Single_case_blockContext":
                out.append((False, ch))
            elif name == "DefaultContext":
                out.append((True, ch))
        return out

    def stmt(self, ctx) -> dict:
        if ctx.simple_stmt() is not None:
            return self.simple(ctx.simple_stmt())
        if ctx.ctx_block() is not None:
            c = ctx.ctx_block()
            h = c.ctx_header()
            return {"k": "with", "type": T(h.IDENTIFIER()), "val": self.integer_like(h.integer_like()),
                    "stmt": self.simple(c.simple_stmt())}
        if ctx.if_block() is not None:
            c = ctx.if_block()
            s = {"k": "if", "not": c.NOT() is not None, "conds": [self.cond(h) for h in c.if_header()],
                 "body": [self.stmt(x) for x in c.stmt()], "elifs": [], "else": None}
            for e in c.elseif_block():
                s["elifs"].append({"not": e.NOT() is not None, "conds": [self.cond(h) for h in e.if_header()],
                                   "body": [self.stmt(x) for x in e.stmt()]})
            if c.else_block() is not None:
                s["else"] = [self.stmt(x) for x in c.else_block().stmt()]
            return s
        if ctx.switch_block() is not None:
            c = ctx.switch_block()
            cases = []
            for is_default, cc in self.cases(c):
                if cc.string() is not None:
                    raise NotExplorerScript("string body in a regular switch")
                cases.append({"default": is_default, "head": None if is_default else self.case_head(cc.case_header()),
                              "body": [self.stmt(x) for x in cc.stmt()]})
            return {"k": "switch", "head": self.switch_head(c.switch_header()), "cases": cases}
        if ctx.message_switch_block() is not None:
            c = ctx.message_switch_block()
            kind = "talk" if c.MESSAGE_SWITCH_TALK() is not None else "monologue"
            cases, default = [], None
            seen_default = False
            for is_default, cc in self.cases(c):
                if cc.string() is None:
                    raise NotExplorerScript("statements in a message switch")
                if is_default:
                    if seen_default:
                        raise NotExplorerScript("two defaults")
                    seen_default = True
                    default = self.string(cc.string())
                else:
                    ch = cc.case_header()
                    if ch.integer_like() is None:
                        raise NotExplorerScript("message switch case header")
                    cases.append({"v": self.integer_like(ch.integer_like()), "s": self.string(cc.string()),
                                  "after_default": seen_default})
            return {"k": "msgswitch", "kind": kind, "v": self.integer_like(c.integer_like()), "cases": cases, "default": default}
        if ctx.forever_block() is not None:
            return {"k": "forever", "body": [self.stmt(x) for x in ctx.forever_block().stmt()]}
        if ctx.while_block() is not None:
            c = ctx.while_block()
            return {"k": "while", "not": c.NOT() is not None, "cond": self.cond(c.if_header()),
                    "body": [self.stmt(x) for x in c.stmt()]}
        if ctx.for_block() is not None:
            c = ctx.for_block()
            return {"k": "for", "init": self.simple(c.simple_stmt(0)), "cond": self.cond(c.if_header()),
                    "inc": self.simple(c.simple_stmt(1)), "body": [self.stmt(x) for x in c.stmt()]}
        c = ctx.macro_call()
        return {"k": "mcall", "name": T(c.MACRO_CALL())[1:], "args": self.arglist(c.arglist())}


def strip_parse_only_keys(prog: dict) -> dict:
    """Removes the keys parse_program adds beyond what gen_prog produces (for identity tests)."""
    import copy

    p = copy.deepcopy(prog)
    p.pop("order", None)

    def fix(stmts):
        for s in stmts:
            if s["k"] == "msgswitch":
                for c in s["cases"]:
                    c.pop("after_default", None)
            for key in ("body", "else"):
                if isinstance(s.get(key), list):
                    fix(s[key])
            for e in s.get("elifs", []) or []:
                fix(e["body"])
            for c in s.get("cases", []) or []:
                if isinstance(c.get("body"), list):
                    fix(c["body"])

    for r in p["routines"]:
        fix(r["body"])
    for m in p["macros"]:
        fix(m["body"])
    return p
