"""Reference models (DESIGN.md 3.1-3.3).

  M(ops)      SSB machine model: routine ops -> deterministic labelled flow graph
  S(program)  reference semantics of ExplorerScript written from docs/language_spec.rst
  equivalent  exact trace-tree equality of two such graphs (worklist over node pairs)

Flow graph: nodes are [kind, label, succ]; kind in {"op","test","stop","skip"}.
 op   : one successor          label = (opcode, params)
 test : two ordered successors label = (opcode, params without target)   succ = [taken, not taken]
 stop : no successor           label = (opcode, params)
 skip : one successor (removed by resolve(); a cycle of skips is an op-free cycle)
"""
from __future__ import annotations

from typing import Any

from vf import spec_tables as T


class OpFreeCycle(Exception):
    pass


class ModelError(Exception):
    """Input outside the model's domain (malformed op list etc.)."""


class FlowGraph:
    def __init__(self) -> None:
        self.nodes: list[list] = []
        self.entries: list[int] = []  # one per routine

    def new(self, kind: str, label: Any = None, succ: list[int] | None = None) -> int:
        self.nodes.append([kind, label, list(succ or [])])
        return len(self.nodes) - 1

    def resolve(self, n: int) -> int:
        seen = []
        while self.nodes[n][0] == "skip":
            if n in seen:
                raise OpFreeCycle()
            seen.append(n)
            if not self.nodes[n][2]:
                raise ModelError("dangling skip node")
            n = self.nodes[n][2][0]
        # path compression
        for s in seen:
            self.nodes[s][2][0] = n
        return n

    def reachable_stats(self) -> dict:
        seen = set()
        tests = 0
        stack = [self.resolve(e) for e in self.entries]
        while stack:
            n = stack.pop()
            if n in seen:
                continue
            seen.add(n)
            kind, _, succ = self.nodes[n]
            if kind == "test":
                tests += 1
            for s in succ:
                stack.append(self.resolve(s))
        return {"nodes": len(seen), "tests": tests}


# --------------------------------------------------------------------------------------
# parameter values
# --------------------------------------------------------------------------------------
def norm_decimal_text(txt: str) -> str:
    """Reference normalisation of a DECIMAL spelling (leading zeros of the whole part are
    insignificant, a missing whole part is 0, negative zero is kept, fraction digits are kept)."""
    neg = txt.startswith("-")
    if neg:
        txt = txt[1:]
    if "." in txt:
        whole, frac = txt.split(".", 1)
    else:
        whole, frac = txt, "0"
    whole = whole.lstrip("0") or "0"
    return ("-" if neg else "") + whole + "." + frac


def norm_real_param(p: Any) -> Any:
    """Value of a parameter object delivered by the code under test."""
    from explorerscript.ssb_converting import ssb_data_types as D

    if isinstance(p, bool):
        return int(p)
    if isinstance(p, int):
        return p
    if isinstance(p, D.SsbOpParamConstant):
        return ("c", p.name)
    if isinstance(p, D.SsbOpParamFixedPoint):
        return ("d", str(p.value))
    if isinstance(p, D.SsbOpParamConstString):
        return ("s", p.name)
    if isinstance(p, D.SsbOpParamLanguageString):
        return ("l", tuple(sorted(p.strings.items())))
    if isinstance(p, D.SsbOpParamPositionMarker):
        return ("p", p.name, p.x_relative, p.y_relative, p.x_offset > 1, p.y_offset > 1)
    if hasattr(p, "value") and isinstance(getattr(p, "value"), int):
        return p.value  # enums
    return ("?", repr(p))


def norm_ast_value(v: dict) -> Any:
    t = v["t"]
    if t == "int":
        return v["v"]
    if t == "const":
        return ("c", v["v"])
    if t == "dec":
        return ("d", norm_decimal_text(v["v"]))
    if t == "str":
        return ("s", v["v"])
    if t == "lang":
        return ("l", tuple(sorted((a, b) for a, b in v["v"])))
    if t == "pos":
        return ("p", v["name"], v["x"], v["y"], bool(v["xh"]), bool(v["yh"]))
    raise ModelError(f"unknown value {v!r}")


# --------------------------------------------------------------------------------------
# M: machine model
# --------------------------------------------------------------------------------------
def machine_graph(routine_ops, lenient_dungeon_mode=None) -> FlowGraph:
    """routine_ops: list of lists of objects with .offset, .op_code.name, .params."""
    g = FlowGraph()
    where: dict[int, int] = {}
    # one skip node per op position so that forward references are easy
    pos_nodes: list[list[int]] = []
    for r in routine_ops:
        row = []
        for op in r:
            n = g.new("skip", None, [])
            if op.offset in where:
                raise ModelError(f"duplicate offset {op.offset}")
            where[op.offset] = n
            row.append(n)
        pos_nodes.append(row)
    implicit_return = None

    def end_node():
        nonlocal implicit_return
        if implicit_return is None:
            implicit_return = g.new("stop", ("Return", ()))
        return implicit_return

    for r_i, r in enumerate(routine_ops):
        for i, op in enumerate(r):
            name = op.op_code.name
            params = list(op.params)
            nxt = pos_nodes[r_i][i + 1] if i + 1 < len(r) else end_node()
            prev_is_ctx = i > 0 and r[i - 1].op_code.name in T.OPS_CTX
            me = pos_nodes[r_i][i]
            if name in T.JUMP_OPS and not prev_is_ctx:
                if not params or not isinstance(params[-1], int) or isinstance(params[-1], bool):
                    raise ModelError(f"{name} at {op.offset} has no integer jump target: {params!r}")
                tgt = params[-1]
                if tgt not in where:
                    raise ModelError(f"{name} at {op.offset} jumps to {tgt}, which is not an op offset")
                rest = tuple(norm_real_param(p) for p in params[:-1])
                if name == "Jump":
                    if rest:
                        raise ModelError("Jump with extra parameters")
                    g.nodes[me][2] = [where[tgt]]
                else:
                    n = g.new("test", (name, rest), [where[tgt], nxt])
                    g.nodes[me][2] = [n]
            elif name in T.STOP_OPS and not prev_is_ctx:
                n = g.new("stop", (name, tuple(norm_real_param(p) for p in params)))
                g.nodes[me][2] = [n]
            else:
                n = g.new("op", (name, tuple(norm_real_param(p) for p in params)), [nxt])
                g.nodes[me][2] = [n]
        if r:
            g.entries.append(pos_nodes[r_i][0])
        else:
            g.entries.append(-1)  # alias / empty routine
    return g


# --------------------------------------------------------------------------------------
# S: reference semantics
# --------------------------------------------------------------------------------------
class SemanticsError(Exception):
    """The program is statically meaningless according to the specification."""


class _Env:
    def __init__(self, labels, cont=None, brk_loop=None, brk_case=None, ret=None):
        self.labels = labels
        self.cont = cont
        self.brk_loop = brk_loop
        self.brk_case = brk_case
        self.ret = ret  # target of `return` (None = stop Return)

    def but(self, **kw):
        e = _Env(self.labels, self.cont, self.brk_loop, self.brk_case, self.ret)
        for k, v in kw.items():
            setattr(e, k, v)
        return e


class SourceSemantics:
    def __init__(self, perf_var: str = T.PERF_VAR):
        self.g = FlowGraph()
        self.perf_var = perf_var
        self.label_nodes: dict[str, int] = {}
        self.label_defined: set[str] = set()

    # -- helpers
    def _label(self, name: str) -> int:
        if name not in self.label_nodes:
            self.label_nodes[name] = self.g.new("skip", None, [])
        return self.label_nodes[name]

    def _val(self, v):
        return norm_ast_value(v)

    def _op_event(self, op: dict) -> tuple:
        return (op["name"], tuple(self._val(a) for a in op["args"]))

    def cond_event(self, c: dict) -> tuple:
        k = c["c"]
        if k == "op":
            code = T.COND_OPS[c["op"]]
            if c.get("value_of"):
                return ("BranchVariable", (self._val(c["l"]), code, self._val(c["r"])))
            if c["op"] == "==":
                return ("Branch", (self._val(c["l"]), self._val(c["r"])))
            return ("BranchValue", (self._val(c["l"]), code, self._val(c["r"])))
        if k == "bit":
            var = c["var"]
            if var["t"] == "const" and var["v"] == self.perf_var:
                return ("BranchPerformance", (c["i"], 0 if c.get("not") else 1))
            if c.get("not"):
                raise SemanticsError("not on bit test of an ordinary variable")
            return ("BranchBit", (self._val(var), c["i"]))
        if k == "neg":
            return (T.NEGATABLE[c["kw"]], (0 if c.get("not") else 1,))
        if k == "scn":
            if c["op"] not in T.SCN_BRANCH:
                raise SemanticsError("scn condition operator")
            return (T.SCN_BRANCH[c["op"]], (self._val(c["var"]), c["a"], c["b"]))
        if k == "opn":
            op = c["op"]
            if op["name"] not in T.OPS_BRANCH or op.get("ctx"):
                raise SemanticsError("operation not usable as condition")
            return self._op_event(op)
        raise ModelError(f"unknown condition {c!r}")

    # -- statements
    def block(self, stmts: list, k: int, env: _Env) -> int:
        for s in reversed(stmts):
            k = self.stmt(s, k, env)
        return k

    def _op_nodes(self, op: dict, k: int, in_ctx: bool = False) -> int:
        if op["name"] in T.STOP_OPS and not (in_ctx or op.get("ctx")):
            # an operation that ends the flow of the entity that runs it (Destroy, JumpCommon, ...)
            ev = self._op_event(op)
            return self.g.new("stop", ev)
        # ... run on ANOTHER entity (inline context / with-block) it is an ordinary statement of this routine: compiler
        # (does_op_end_control_flow) and decompiler (graph building) both say that the op after a context op never
        # ends the control flow
        n = self.g.new("op", self._op_event(op), [k])
        if op.get("ctx"):
            c = op["ctx"]
            n = self.g.new("op", (T.CTX_OPS[c["type"]], (self._val(c["val"]),)), [n])
        return n

    def simple(self, s: dict, k: int, env: _Env) -> int:
        g = self.g
        kind = s["k"]
        if kind == "op":
            return self._op_nodes(s, k)
        if kind == "assign":
            return g.new("op", self.assign_event(s), [k])
        if kind == "label":
            name = s["name"]
            if name in self.label_defined:
                # the specification does not say; the generator never produces this
                raise SemanticsError("label defined twice")
            self.label_defined.add(name)
            n = self._label(name)
            g.nodes[n][2] = [k]
            return n
        if kind == "jump":
            return g.new("skip", None, [self._label(s["label"])])
        if kind == "call":
            return g.new("test", ("Call", ()), [self._label(s["label"]), k])
        if kind == "ctl":
            v = s["v"]
            if v == "return":
                if env.ret is not None:
                    return g.new("skip", None, [env.ret])
                return g.new("stop", ("Return", ()))
            if v == "end":
                return g.new("stop", ("End", ()))
            if v == "hold":
                return g.new("stop", ("Hold", ()))
            if v == "continue":
                if env.cont is None:
                    raise SemanticsError("continue outside loop")
                return g.new("skip", None, [env.cont])
            if v == "break_loop":
                if env.brk_loop is None:
                    raise SemanticsError("break_loop outside loop")
                return g.new("skip", None, [env.brk_loop])
            if v == "break":
                if env.brk_case is None:
                    raise SemanticsError("break outside case")
                return g.new("skip", None, [env.brk_case])
        raise ModelError(f"unknown simple statement {s!r}")

    def assign_event(self, s: dict) -> tuple:
        f = s["form"]
        v = self._val
        if f == "regular":
            if s.get("bit") is not None:
                if s.get("value_of"):
                    raise SemanticsError("value() with bit assignment")
                tgt = s["target"]
                if tgt["t"] == "const" and tgt["v"] == self.perf_var:
                    return ("flag_SetPerformance", (s["bit"], v(s["val"])))
                return ("flag_CalcBit", (v(tgt), s["bit"], v(s["val"])))
            if s.get("value_of"):
                return ("flag_CalcVariable", (v(s["target"]), T.ASSIGN_OPS[s["op"]], v(s["val"])))
            if s["op"] == "=":
                return ("flag_Set", (v(s["target"]), v(s["val"])))
            return ("flag_CalcValue", (v(s["target"]), T.ASSIGN_OPS[s["op"]], v(s["val"])))
        if f == "clear":
            return ("flag_Clear", (v(s["target"]),))
        if f == "init":
            return ("flag_Initial", (v(s["target"]),))
        if f == "reset_dr":
            return ("flag_ResetDungeonResult", ())
        if f == "reset_scn":
            return ("flag_ResetScenario", (v(s["target"]),))
        if f == "advlog":
            return ("flag_SetAdventureLog", (v(s["val"]),))
        if f == "dmode":
            return ("flag_SetDungeonMode", (v(s["target"]), v(s["val"])))
        if f == "scn":
            return ("flag_SetScenario", (v(s["target"]), s["a"], s["b"]))
        raise ModelError(f"unknown assignment {s!r}")

    def _clause(self, neg: bool, conds: list, body_entry: int, else_entry: int) -> int:
        """tests left to right; returns entry node."""
        g = self.g
        nxt = body_entry if neg else else_entry  # after the last test was not taken
        for c in reversed(conds):
            ev = self.cond_event(c)
            if neg:
                nxt = g.new("test", ev, [else_entry, nxt])
            else:
                nxt = g.new("test", ev, [body_entry, nxt])
        return nxt

    def stmt(self, s: dict, k: int, env: _Env) -> int:
        g = self.g
        kind = s["k"]
        if kind in ("op", "assign", "label", "jump", "call", "ctl"):
            return self.simple(s, k, env)
        if kind == "with":
            inner = s["stmt"]
            if inner["k"] == "label":
                raise SemanticsError("label inside with block")
            if inner["k"] == "op" and inner.get("ctx"):
                raise SemanticsError("inline ctx inside with block")
            n = self._op_nodes(inner, k, in_ctx=True) if inner["k"] == "op" else self.simple(inner, k, env)
            return g.new("op", (T.CTX_OPS[s["type"]], (self._val(s["val"]),)), [n])
        if kind == "if":
            clauses = [(s.get("not", False), s["conds"], s["body"])] + [
                (e.get("not", False), e["conds"], e["body"]) for e in s.get("elifs", [])
            ]
            else_entry = self.block(s["else"], k, env) if s.get("else") is not None else k
            for neg, conds, body in reversed(clauses):
                body_entry = self.block(body, k, env)
                else_entry = self._clause(neg, conds, body_entry, else_entry)
            return else_entry
        if kind == "switch":
            return self.switch(s, k, env)
        if kind == "msgswitch":
            name = "message_SwitchTalk" if s["kind"] == "talk" else "message_SwitchMonologue"
            n = k
            if s.get("default") is not None:
                n = g.new("op", ("DefaultText", (self._val(s["default"]),)), [n])
            for c in reversed(s["cases"]):
                n = g.new("op", ("CaseText", (self._val(c["v"]), self._val(c["s"]))), [n])
            return g.new("op", (name, (self._val(s["v"]),)), [n])
        if kind == "forever":
            head = g.new("skip", None, [])
            body = self.block(s["body"], head, env.but(cont=head, brk_loop=k))
            g.nodes[head][2] = [body]
            return head
        if kind == "while":
            check = g.new("skip", None, [])
            body = self.block(s["body"], check, env.but(cont=check, brk_loop=k))
            ev = self.cond_event(s["cond"])
            if s.get("not"):
                t = g.new("test", ev, [k, body])
            else:
                t = g.new("test", ev, [body, k])
            g.nodes[check][2] = [t]
            return check
        if kind == "for":
            check = g.new("skip", None, [])
            inc = self.simple_in_for(s["inc"], check, env)
            body = self.block(s["body"], inc, env.but(cont=inc, brk_loop=k))
            t = g.new("test", self.cond_event(s["cond"]), [body, k])
            g.nodes[check][2] = [t]
            return self.simple_in_for(s["init"], check, env)
        if kind == "mcall":
            raise ModelError("macro call must be inlined before S is built")
        raise ModelError(f"unknown statement {s!r}")

    def simple_in_for(self, s: dict, k: int, env: _Env) -> int:
        # init / increment slots: the loop's own continue/break targets do not apply to them
        return self.simple(s, k, env)

    def switch(self, s: dict, k: int, env: _Env) -> int:
        g = self.g
        cases = s["cases"]
        head = s["head"]
        hk = head["h"]
        if hk == "var":
            hev = ("Switch", (self._val(head["v"]),))
        elif hk == "scn":
            if head["i"] == 0:
                hev = ("SwitchScenario", (self._val(head["v"]),))
            elif head["i"] == 1:
                hev = ("SwitchScenarioLevel", (self._val(head["v"]),))
            else:
                raise SemanticsError("scn index")
        elif hk == "random":
            hev = ("SwitchRandom", (self._val(head["v"]),))
        elif hk == "dmode":
            hev = ("SwitchDungeonMode", (self._val(head["v"]),))
        elif hk == "sector":
            hev = ("SwitchSector", ())
        elif hk == "op":
            if head["op"].get("ctx"):
                raise SemanticsError("inline ctx in switch header")
            hev = self._op_event(head["op"])
        else:
            raise ModelError(f"unknown switch head {head!r}")
        if not cases:
            return g.new("op", hev, [k])
        if sum(1 for c in cases if c.get("default")) > 1:
            raise SemanticsError("two defaults")
        if not cases[-1]["body"]:
            raise SemanticsError("switch ends in an empty case")
        # bodies in source order with fall-through
        cenv = env.but(brk_case=k)
        entry_after = k
        body_entry: list[int] = [0] * len(cases)
        for i in range(len(cases) - 1, -1, -1):
            if cases[i]["body"]:
                entry_after = self.block(cases[i]["body"], entry_after, cenv)
            body_entry[i] = entry_after  # next body at or after case i
        # headers in source order; default jump after the last header
        default_idx = [i for i, c in enumerate(cases) if c.get("default")]
        nxt = body_entry[default_idx[0]] if default_idx else k
        for i in range(len(cases) - 1, -1, -1):
            c = cases[i]
            if c.get("default"):
                continue
            nxt = g.new("test", self.case_event(c["head"], hev[0]), [body_entry[i], nxt])
        return g.new("op", hev, [nxt])

    def case_event(self, h: dict, switch_opcode: str) -> tuple:
        ch = h["ch"]
        if ch == "val":
            return ("Case", (self._val(h["v"]),))
        if ch == "op":
            code = T.COND_OPS[h["op"]]
            if h.get("value_of"):
                return ("CaseVariable", (code, self._val(h["v"])))
            name = "CaseScenario" if switch_opcode == "SwitchScenario" else "CaseValue"
            return (name, (code, self._val(h["v"])))
        if ch == "menu":
            return ("CaseMenu", (self._val(h["s"]),))
        if ch == "menu2":
            return ("CaseMenu2", (self._val(h["v"]),))
        raise ModelError(f"unknown case head {h!r}")


def source_graph(program: dict, perf_var: str = T.PERF_VAR) -> tuple[FlowGraph, list[dict]]:
    """Returns (graph with one entry per routine slot, routine table)."""
    sem = SourceSemantics(perf_var)
    g = sem.g
    routines = program["routines"]
    n_slots = 0
    slots: dict[int, dict] = {}
    next_coro = 0
    for r in routines:
        if r["kind"] == "coro":
            rid = next_coro
            next_coro += 1
        else:
            rid = r["id"]
        slots[rid] = r
        n_slots = max(n_slots, rid + 1)
    table = []
    entries = []
    env = _Env(sem.label_nodes)
    for rid in range(n_slots):
        r = slots.get(rid)
        if r is None:
            entries.append(-1)
            table.append(None)
            continue
        if r.get("alias"):
            entries.append(-1)
        else:
            end = g.new("stop", ("Return", ()))
            entries.append(sem.block(r["body"], end, env))
        table.append(routine_table_entry(r))
    undefined = [n for n in sem.label_nodes if n not in sem.label_defined]
    if undefined:
        raise SemanticsError(f"undefined label(s) {undefined}")
    g.entries = entries
    return g, table


def routine_table_entry(r: dict) -> dict:
    if r["kind"] == "coro":
        return {"type": "COROUTINE", "target": None, "name": r["name"]}
    tgt = r.get("target")
    if tgt is None:
        return {"type": "GENERIC", "target": None, "name": None}
    v = tgt["val"]
    if v["t"] == "int":
        target = ("i", v["v"])
    else:
        target = ("n", v["v"])
    return {"type": tgt["type"].upper(), "target": target, "name": None}


def real_routine_table(routine_infos, named_coroutines) -> list:
    out = []
    for i, info in enumerate(routine_infos):
        if info is None:
            out.append(None)
            continue
        tname = info.type.name
        if tname == "COROUTINE":
            nm = None
            if isinstance(named_coroutines, dict):
                nm = named_coroutines.get(i)
            elif named_coroutines is not None and i < len(named_coroutines):
                nm = named_coroutines[i]
                nm = getattr(nm, "name", nm)
            out.append({"type": "COROUTINE", "target": None, "name": nm})
        elif tname == "GENERIC":
            out.append({"type": "GENERIC", "target": None, "name": None})
        else:
            if info.linked_to_name:
                target = ("n", info.linked_to_name)
            else:
                target = ("i", info.linked_to)
            out.append({"type": tname, "target": target, "name": None})
    return out


# --------------------------------------------------------------------------------------
# equivalence
# --------------------------------------------------------------------------------------
def equivalent(g1: FlowGraph, g2: FlowGraph, label_eq=None) -> tuple[bool, str, int]:
    """Exact trace-tree equality. Returns (ok, message, pairs visited)."""
    if len(g1.entries) != len(g2.entries):
        return False, f"routine count {len(g1.entries)} vs {len(g2.entries)}", 0
    pairs = 0
    if label_eq is None:
        label_eq = lambda a, b: a == b  # noqa
    for r, (e1, e2) in enumerate(zip(g1.entries, g2.entries)):
        if (e1 == -1) != (e2 == -1):
            return False, f"routine {r}: one side has no ops (alias/empty) and the other has", pairs
        if e1 == -1:
            continue
        seen: dict[tuple[int, int], None] = {}
        stack = [(g1.resolve(e1), g2.resolve(e2), ())]
        while stack:
            a, b, path = stack.pop()
            if (a, b) in seen:
                continue
            seen[(a, b)] = None
            pairs += 1
            ka, la, sa = g1.nodes[a]
            kb, lb, sb = g2.nodes[b]
            if ka != kb or not label_eq(la, lb) or len(sa) != len(sb):
                p = " -> ".join(path[-8:])
                return (
                    False,
                    f"routine {r}: after [{p}] expected {ka} {la!r}, got {kb} {lb!r}",
                    pairs,
                )
            for i, (x, y) in enumerate(zip(sa, sb)):
                step = f"{la[0]}" + (("+" if i == 0 else "-") if ka == "test" else "")
                stack.append((g1.resolve(x), g2.resolve(y), path[-8:] + (step,)))
    return True, "", pairs


def count_paths(g: FlowGraph, cap: int = 1000) -> int:
    """Number of distinct acyclic complete paths from the entries (capped); used for non-triviality."""
    total = 0
    for e in g.entries:
        if e == -1:
            continue
        memo: dict[int, int] = {}

        def rec(n, onpath):
            n = g.resolve(n)
            if n in onpath:
                return 1
            if n in memo:
                return memo[n]
            kind, _, succ = g.nodes[n]
            if not succ:
                return 1
            onpath = onpath | {n}
            v = 0
            for s in succ:
                v += rec(s, onpath)
                if v > cap:
                    break
            memo[n] = min(v, cap)
            return memo[n]

        from vf.cut import harness_stack

        with harness_stack():
            total += rec(e, frozenset())
        if total > cap:
            return cap
    return total
