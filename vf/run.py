"""Entry point:  python -m vf.run <ID> [--tier quick|thorough] [--replay FILE]"""
from __future__ import annotations

import argparse
import importlib
import os
import sys


def main() -> int:
    ap = argparse.ArgumentParser()
    ap.add_argument("check")
    ap.add_argument("--tier", default=os.environ.get("VERIF_TIER", "quick"), choices=["quick", "thorough"])
    ap.add_argument("--replay", default=None)
    a = ap.parse_args()

    # deterministic hashing: re-exec once with PYTHONHASHSEED=0
    if os.environ.get("PYTHONHASHSEED") != "0":
        env = dict(os.environ, PYTHONHASHSEED="0")
        os.execve(sys.executable, [sys.executable, "-m", "vf.run"] + sys.argv[1:], env)

    try:
        seed = int(os.environ.get("VERIF_SEED", "1") or "1")
    except ValueError:
        seed = 1

    from vf import core

    sys.path.insert(0, str(core.REPO))
    os.environ["PYTHONPATH"] = str(core.REPO) + os.pathsep + str(core.VERIF) + os.pathsep + os.environ.get("PYTHONPATH", "")
    try:
        import explorerscript  # noqa
        import hypothesis  # noqa
    except Exception as e:  # noqa
        print(f"harness error: cannot import dependencies: {e}")
        return 2
    if not os.path.realpath(explorerscript.__file__).startswith(str(core.REPO)):
        print(f"harness error: explorerscript imported from {explorerscript.__file__}, expected under {core.REPO}")
        return 2
    import logging

    logging.disable(logging.CRITICAL)
    import warnings

    warnings.simplefilter("ignore")
    if os.environ.get("VERIF_DEBUG") != "1":
        # the ANTLR console error listener writes every syntax error to stderr
        sys.stderr.flush()
        os.dup2(os.open(os.devnull, os.O_WRONLY), 2)
    try:
        mod = importlib.import_module(f"vf.checks.{a.check.lower()}")
    except ModuleNotFoundError as e:
        print(f"harness error: unknown check {a.check}: {e}")
        return 2
    try:
        return core.run_check(mod, a.tier, seed, a.replay)
    except Exception:  # noqa
        import traceback

        print("HARNESS ERROR (exit 2, not a verdict about the property):")
        traceback.print_exc(file=sys.stdout)
        return 2


if __name__ == "__main__":
    sys.exit(main())
