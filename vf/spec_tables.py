"""Documented encoding (DESIGN.md Appendix A): one place for opcode names, operator codes,
reserved words.  Transcribed from docs/language_spec.rst; NOT imported from the repository,
so that a change there is seen as a difference."""

# deliberately NOT the name the documentation uses ("$PERFORMANCE_PROGRESS_LIST"): the name is configuration, and a place that
# falls back to the documented name instead of the configured one must show
PERF_VAR = "$PERF_PROGRESS_VF"

COND_OPS = {"FALSE": 0, "TRUE": 1, "==": 2, ">": 3, "<": 4, ">=": 5, "<=": 6, "!=": 7, "&": 8, "^": 9, "&<<": 10}
COND_OPS_INV = {v: k for k, v in COND_OPS.items()}
ASSIGN_OPS = {"=": 0, "-=": 1, "+=": 2, "*=": 3, "/=": 4}
ASSIGN_OPS_INV = {v: k for k, v in ASSIGN_OPS.items()}

SCN_BRANCH = {
    "==": "BranchScenarioNow",
    ">=": "BranchScenarioNowAfter",
    "<=": "BranchScenarioNowBefore",
    ">": "BranchScenarioAfter",
    "<": "BranchScenarioBefore",
}
SCN_BRANCH_INV = {v: k for k, v in SCN_BRANCH.items()}
NEGATABLE = {"debug": "BranchDebug", "edit": "BranchEdit", "variation": "BranchVariation"}
NEGATABLE_INV = {v: k for k, v in NEGATABLE.items()}
CTX_OPS = {"actor": "lives", "object": "object", "performer": "performer"}
CTX_OPS_INV = {v: k for k, v in CTX_OPS.items()}
OPS_CTX = set(CTX_OPS.values())

# op name -> number of parameters before the jump target
OPS_BRANCH = {
    "Branch": 2,
    "BranchBit": 2,
    "BranchDebug": 1,
    "BranchEdit": 1,
    "BranchExecuteSub": 1,
    "BranchPerformance": 2,
    "BranchScenarioNow": 3,
    "BranchScenarioNowAfter": 3,
    "BranchScenarioNowBefore": 3,
    "BranchScenarioAfter": 3,
    "BranchScenarioBefore": 3,
    "BranchSum": 3,
    "BranchValue": 3,
    "BranchVariable": 3,
    "BranchVariation": 1,
}
OPS_CASE = {"Case": 1, "CaseMenu": 1, "CaseMenu2": 1, "CaseScenario": 2, "CaseValue": 2, "CaseVariable": 2}
JUMP_OPS = dict(OPS_BRANCH)
JUMP_OPS.update(OPS_CASE)
JUMP_OPS.update({"Jump": 0, "Call": 0})
STOP_OPS = {"Return", "End", "Hold", "Destroy", "JumpCommon"}

SWITCH_HEAD_OPS = {
    "Switch": 1,
    "SwitchScenario": 1,
    "SwitchScenarioLevel": 1,
    "SwitchRandom": 1,
    "SwitchDungeonMode": 1,
    "SwitchSector": 0,
}
# ops the decompiler treats as switch-capable headers and the cases that may follow them
REGULAR_CASES = ["Case", "CaseValue", "CaseVariable", "CaseScenario"]
MENU_CASES = ["CaseMenu", "CaseMenu2"]
SWITCH_CASE_MAP = {
    "message_SwitchMenu": MENU_CASES,
    "message_SwitchMenu2": MENU_CASES,
    "Switch": REGULAR_CASES,
    "SwitchSector": REGULAR_CASES,
    "ProcessSpecial": REGULAR_CASES,
    "message_Menu": REGULAR_CASES,
    "SwitchScenario": REGULAR_CASES,
    "SwitchRandom": REGULAR_CASES,
    "SwitchScenarioLevel": REGULAR_CASES,
    "SwitchDungeonMode": REGULAR_CASES,
    "main_EnterAdventure": REGULAR_CASES,
    "main_EnterRescueUser": REGULAR_CASES,
    "main_EnterTraining": REGULAR_CASES,
    "main_EnterTraining2": REGULAR_CASES,
}
MSG_SWITCHES = ["message_SwitchTalk", "message_SwitchMonologue"]
FLAG_OPS = [
    "flag_CalcBit",
    "flag_CalcValue",
    "flag_CalcVariable",
    "flag_Clear",
    "flag_Initial",
    "flag_Set",
    "flag_ResetDungeonResult",
    "flag_ResetScenario",
    "flag_SetAdventureLog",
    "flag_SetDungeonMode",
    "flag_SetPerformance",
    "flag_SetScenario",
]

RESERVED = set(
    """import macro if elseif else forever with switch return end hold continue break break_loop value debug
    edit variation random sector dungeon_mode menu menu2 case default clear reset init scn dungeon_result
    adventure_log message_SwitchTalk message_SwitchMonologue while not jump call TRUE FALSE coro def for
    for_actor for_object for_performer alias previous Position""".split()
)
SPECIAL_OP_NAMES = (
    set(JUMP_OPS)
    | STOP_OPS
    | OPS_CTX
    | set(SWITCH_CASE_MAP)
    | set(MSG_SWITCHES)
    | set(FLAG_OPS)
    | {"CaseText", "DefaultText"}
)

# A handful of real EoS op names with no special meaning (used next to generated op_N names)
PLAIN_OPS = [
    "WaitExecuteLives",
    "message_Talk",
    "message_Close",
    "camera_SetMyself",
    "SetPosition",
    "Turn2Direction",
    "se_Play",
    "bgm_PlayFadeIn",
    "supervision_Acting",
    "CallCommon",
    "Wait",
    "screen_FadeIn",
    "back_SetGround",
    "MovePositionMark",
    "SetAnimation",
]
DUNGEON_MODE_CONSTANTS = ["DMODE_CLOSE", "DMODE_OPEN", "DMODE_REQUEST", "DMODE_OPEN_AND_REQUEST"]  # index = value
