"""Macro / import generator and the reference inliner (DESIGN.md 3.5)."""
from __future__ import annotations

import copy
import os
import shutil
import tempfile

from hypothesis import strategies as st

from vf import gen_prog
from vf.gen_prog import G


# --------------------------------------------------------------------------------------
# reference inliner
# --------------------------------------------------------------------------------------
class InlineError(Exception):
    pass


def _subst_value(v, env):
    if isinstance(v, dict) and v.get("t") == "const" and v["v"] in env:
        return copy.deepcopy(env[v["v"]])
    return v


def _subst(node, env, labels, end_label):
    """Deep copy of a statement/expression tree with parameters substituted, labels renamed and
    `return` turned into a jump to end_label."""
    if isinstance(node, list):
        return [_subst(x, env, labels, end_label) for x in node]
    if not isinstance(node, dict):
        return node
    if node.get("t") == "const":
        return _subst_value(node, env)
    if "t" in node:
        return copy.deepcopy(node)
    k = node.get("k")
    if k == "label":
        return {"k": "label", "name": labels(node["name"])}
    if k in ("jump", "call"):
        return {"k": k, "label": labels(node["label"])}
    if k == "ctl" and node["v"] == "return":
        return {"k": "jump", "label": end_label, "from_return": True}
    return {key: _subst(val, env, labels, end_label) for key, val in node.items()}


def _tag(stmts, xid):
    """marks every statement of an expansion (not those of nested expansions, they are tagged later) with its id"""
    for s in stmts:
        if "_x" not in s:
            s["_x"] = xid
        for key in ("body", "else"):
            if isinstance(s.get(key), list):
                _tag(s[key], xid)
        for e in s.get("elifs", []) or []:
            _tag(e["body"], xid)
        for c in s.get("cases", []) or []:
            if isinstance(c.get("body"), list):
                _tag(c["body"], xid)
        if s.get("k") == "with":
            s["stmt"]["_x"] = xid
        if s.get("k") == "for":
            s["init"]["_x"] = xid
            s["inc"]["_x"] = xid


class Inliner:
    def __init__(self, macros: dict[str, dict]):
        self.macros = macros
        self.n = 0
        self.expansions: dict[int, dict] = {}
        self.xstack: list[int] = []

    def expand_call(self, call: dict, stack=()) -> list:
        name = call["name"]
        if name not in self.macros:
            raise InlineError(f"unknown macro {name}")
        if name in stack:
            raise InlineError(f"recursive macro {name}")
        m = self.macros[name]
        if len(call["args"]) < len(m["params"]):
            raise InlineError(f"too few arguments for {name}")
        self.n += 1
        tag = f"__x{self.n}"
        env = {p: a for p, a in zip(m["params"], call["args"])}
        end = f"macro_end{tag}"

        def labels(nm):
            return nm + tag

        body = _subst(m["body"], env, labels, end)
        xid = self.n
        self.expansions[xid] = {"macro": name, "parent": self.xstack[-1] if self.xstack else None, "call": call}
        _tag(body, xid)
        self.xstack.append(xid)
        body = self.block(body, stack + (name,))
        self.xstack.pop()
        return body + [{"k": "label", "name": end}]

    def block(self, stmts: list, stack=()) -> list:
        out = []
        for s in stmts:
            if s["k"] == "mcall":
                out.extend(self.expand_call(s, stack))
                continue
            s = dict(s)
            k = s["k"]
            if k == "if":
                s["body"] = self.block(s["body"], stack)
                s["elifs"] = [dict(e, body=self.block(e["body"], stack)) for e in s.get("elifs", [])]
                if s.get("else") is not None:
                    s["else"] = self.block(s["else"], stack)
            elif k == "switch":
                s["cases"] = [dict(c, body=self.block(c["body"], stack)) for c in s["cases"]]
            elif k in ("forever", "while", "for"):
                s["body"] = self.block(s["body"], stack)
            out.append(s)
        return out


def inline_program(prog: dict, visible_macros: dict[str, dict], inliner=None) -> dict:
    """Program in which every macro call is replaced by the macro's body (macros removed)."""
    inl = inliner or Inliner(visible_macros)
    p = {"imports": [], "macros": [], "routines": []}
    for r in prog["routines"]:
        r2 = dict(r)
        r2["body"] = inl.block(copy.deepcopy(r["body"]))
        p["routines"].append(r2)
    return p


def call_graph(macros: list[dict]) -> dict[str, set]:
    g = {}
    for m in macros:
        calls = set()
        gen_prog.walk(m["body"], lambda s, d: calls.add(s["name"]) if s["k"] == "mcall" else None)
        g[m["name"]] = calls
    return g


def depth_of(name, g, memo=None):
    memo = {} if memo is None else memo
    if name in memo:
        return memo[name]
    memo[name] = 1 + max([depth_of(c, g, memo) for c in g.get(name, ())], default=0)
    return memo[name]


# --------------------------------------------------------------------------------------
# generator
# --------------------------------------------------------------------------------------
class MG(G):
    def macro_body(self, name, params, callable_macros, arity):
        self.params_in_scope = list(params)
        self.macro_names = list(callable_macros)
        self.macro_arity = arity
        save_pool, save_def, save_used = self.label_pool, self.labels_defined, self.labels_used
        self.label_pool = [f"{name}_l{j}" for j in range(self.pick([0, 0, 1, 2]))]
        self.labels_defined, self.labels_used = set(), set()
        body = []
        n = self.i(1, 5)
        if self.b(1, 5):
            # anchor shapes: degenerate bodies - only a return, only a label and a return, an op behind a return
            n = 0
            self.degenerate_macros.append(name)
            body = self.pick([[{"k": "ctl", "v": "return"}], [{"k": "ctl", "v": "return"}], [{"k": "ctl", "v": "return"}, self.op()], [self.op(), {"k": "ctl", "v": "return"}],
                              [{"k": "if", "not": False, "conds": [self.cond()], "body": [{"k": "ctl", "v": "return"}], "elifs": [], "else": None}]])
        for _ in range(n):
            if self.budget <= 0:
                break
            # force some calls so that the call graph is interesting
            if callable_macros and self.b(1, 3):
                body.append(self.macro_call())
            else:
                body.append(self.stmt(0, False, False))
        if self.b(1, 3):
            at = self.i(0, len(body))
            body.insert(at, {"k": "if", "not": self.b(), "conds": [self.cond()], "body": [{"k": "ctl", "v": "return"}], "elifs": [], "else": None})
        if not body:
            body = [self.op()]
        for lab in self.label_pool:
            if lab not in self.labels_defined and lab in self.labels_used:
                at = self.i(0, len(body))
                body[at:at] = [{"k": "label", "name": lab}, self.op()]
        self.label_pool, self.labels_defined, self.labels_used = save_pool, save_def, save_used
        self.params_in_scope = []
        self.macro_names = []
        return body

    def var(self):
        # parameters also appear in header / assignment-target positions
        if self.params_in_scope and self.b(1, 4):
            return {"t": "const", "v": self.pick(self.params_in_scope)}
        return super().var()


def _gen_macros(g: MG, n_macros: int):
    macros = []
    arity = {}
    names = []
    shapes = g.i(0, 3)
    for i in range(n_macros):
        name = f"mac_{i}" if g.b(3, 4) else g.pick(["helper", "Do_It", "m"]) + str(i)
        params = [f"$p{i}_{j}" for j in range(g.i(0, 3))]
        # callees: macros defined "below" (lower index) -> acyclic by construction
        if shapes == 0:
            callable_ = names[-1:]  # chain
        elif shapes == 1:
            callable_ = names[:]  # anything lower: diamonds / shared callees
        else:
            callable_ = [nm for nm in names if g.b()]
        body = g.macro_body(name, params, callable_, arity)
        macros.append({"name": name, "params": params, "body": body})
        arity[name] = len(params)
        names.append(name)
    return macros, arity


@st.composite
def macro_programs(draw, single_file=True, max_stmts=45, with_control=False):
    g = MG(draw, max_stmts=max_stmts, with_control=with_control)
    n_macros = g.i(1, 6)
    macros, arity = _gen_macros(g, n_macros)
    g.macro_names = [m["name"] for m in macros]
    g.macro_arity = arity
    g.budget = max(g.budget, 12)
    routines = g.routines()
    # make sure at least one call exists at routine level
    if not any(s["k"] == "mcall" for r in routines for s in r["body"]):
        tgt = [r for r in routines if not r["alias"]]
        r = g.pick(tgt)
        r["body"].insert(g.i(0, len(r["body"])), g.macro_call())
    g.macro_names = []
    perm = draw(st.permutations(list(range(n_macros))))
    prog = {"imports": [], "macros": macros, "routines": routines}
    # interleave macros (in drawn definition order) with routines
    order = [["m", i] for i in perm]
    for ri in range(len(routines)):
        order.insert(g.i(0, len(order)), None)
    ri = 0
    for k, o in enumerate(order):
        if o is None:
            order[k] = ["r", ri]
            ri += 1
    prog["order"] = order
    if single_file:
        return prog
    return _distribute(g, draw, prog)


def _distribute(g: MG, draw, prog):
    """Spread the macros over 1-4 files with imports (relative / absolute / lookup path)."""
    macros = prog["macros"]
    n = len(macros)
    cg = call_graph(macros)
    idx = {m["name"]: i for i, m in enumerate(macros)}
    nfiles = g.i(0, 3) if g.b(1, 6) else g.i(1, 3)  # imported files besides main (none at all: rarely)
    file_of = [0] * n
    # callers have higher index than callees; walk from the top so that file(callee) >= file(caller)
    for i in range(n - 1, -1, -1):
        callers = [j for j in range(n) if macros[i]["name"] in cg[macros[j]["name"]]]
        lo = max([file_of[j] for j in callers], default=0)
        file_of[i] = min(nfiles, lo + g.i(0, 2)) if nfiles else 0
    if nfiles and n and all(f == 0 for f in file_of):
        # at least one macro lives in an imported file: the one nothing else calls into from below (index 0 is a leaf callee)
        file_of[0] = g.i(1, nfiles)
    kinds = ["same", "sub", "parent", "abs", "lookup", "sibling"]
    # the lookup directories are searched in the order the caller lists them - which need not be the alphabetical order
    # of their names
    lp_order = list(draw(st.permutations([1, 2, 3])))
    files = []
    for f in range(1, nfiles + 1):
        kind = g.pick(kinds)
        fname = f"f{f}.exps" if g.b() else g.pick(["common.exps", "util.exps", "a b.exps"]).replace(".exps", f"{f}.exps")
        if kind == "same":
            rel = f"proj/{fname}"
        elif kind == "sub":
            rel = f"proj/sub/{fname}"
        elif kind == "parent":
            rel = fname
        elif kind == "sibling":
            # a directory next to the main file's directory whose name begins with that directory's name
            rel = g.pick(["proj_common", "project", "proj2", "proj.d"]) + "/" + fname
        elif kind == "abs":
            rel = f"elsewhere/{fname}"
        lp_pos = None
        if kind == "lookup":
            lp_pos = g.i(0, 2)
            rel = f"lp{lp_order[lp_pos]}/lib/{fname}"
        files.append({"kind": kind, "path": rel, "macros": [i for i in range(n) if file_of[i] == f], "imports": set(), "lp_pos": lp_pos})
    main_macros = [i for i in range(n) if file_of[i] == 0]
    # import edges so that every callee is visible
    edges: dict[int, set] = {f: set() for f in range(0, nfiles + 1)}

    def visible(frm, to):
        seen, stack = set(), [frm]
        while stack:
            x = stack.pop()
            if x == to:
                return True
            if x in seen:
                continue
            seen.add(x)
            stack.extend(edges[x])
        return False

    for j in range(n):
        for callee in cg[macros[j]["name"]]:
            a, b = file_of[j], file_of[idx[callee]]
            if a != b and not visible(a, b):
                edges[a].add(b)
    used_in_routines = set()
    for r in prog["routines"]:
        gen_prog.walk(r["body"], lambda s, d: used_in_routines.add(s["name"]) if s["k"] == "mcall" else None)
    for nm in used_in_routines:
        b = file_of[idx[nm]]
        if b != 0 and not visible(0, b):
            edges[0].add(b)
    # a few redundant imports (diamonds)
    for f in range(0, nfiles + 1):
        for t in range(f + 1, nfiles + 1):
            if g.b(1, 6):
                edges[f].add(t)

    def import_string(frm_path, to):
        kind, path = to["kind"], to["path"]
        if kind == "abs":
            return "{BASE}/" + path
        if kind == "lookup":
            return path.split("/", 1)[1]  # relative to the lookup path
        frm_dir = os.path.dirname(frm_path)
        rel = os.path.relpath(path, frm_dir).replace(os.sep, "/")
        if not rel.startswith("."):
            rel = "./" + rel
        return rel

    main_path = "proj/main.exps"
    out_files = []
    for f in range(1, nfiles + 1):
        fd = files[f - 1]
        perm = draw(st.permutations(fd["macros"]))
        p = {"imports": [import_string(fd["path"], files[t - 1]) for t in sorted(edges[f])],
             "macros": [macros[i] for i in perm], "routines": []}
        out_files.append({"path": fd["path"], "kind": fd["kind"], "prog": p, "marker_ok": True})
    # decoys: a file of the same name in a LATER lookup path must not be picked
    decoys = []
    for fd in files:
        if fd["kind"] == "lookup":
            for later in range(fd["lp_pos"] + 1, 3):
                if g.b():
                    decoys.append({"path": f"lp{lp_order[later]}/" + fd["path"].split("/", 1)[1],
                                   "prog": {"imports": [], "macros": [{"name": macros[i]["name"], "params": macros[i]["params"],
                                                                         "body": [{"k": "op", "name": "DECOY", "args": [], "ctx": None}]}
                                                                        for i in fd["macros"]] or
                                            [{"name": "decoy_only", "params": [], "body": [{"k": "op", "name": "DECOY", "args": [], "ctx": None}]}],
                                            "routines": []}})
    main = {"imports": [import_string(main_path, files[t - 1]) for t in sorted(edges[0])],
            "macros": [macros[i] for i in main_macros], "routines": prog["routines"]}
    # definition order in main: drawn permutation interleaved with routines
    perm = draw(st.permutations(list(range(len(main_macros)))))
    order = [["m", i] for i in perm]
    for ri in range(len(main["routines"])):
        order.insert(g.i(0, len(order)), ["r", -1])
    ri = 0
    for o in order:
        if o[0] == "r":
            o[1] = ri
            ri += 1
    main["order"] = order
    return {"multi": True, "main": main, "main_path": main_path, "files": out_files, "decoys": decoys,
            "lookup": [f"lp{x}" for x in lp_order], "all_macros": macros}


# --------------------------------------------------------------------------------------
# materialising a multi-file case
# --------------------------------------------------------------------------------------
class Workspace:
    def __init__(self, case, render_fn, base=None):
        """base: fixed directory (created if missing, kept on close) - used when several processes must see the same
        absolute paths; default: a fresh temporary directory that close() removes."""
        self.keep = base is not None
        if base is None:
            self.base = tempfile.mkdtemp(prefix="vf-ws-")
        else:
            self.base = base
            os.makedirs(base, exist_ok=True)
        self.case = case
        self.texts: dict[str, str] = {}
        self.rendered: dict[str, object] = {}
        self.main_is_link = False

        def fix(prog):
            p = copy.deepcopy(prog)
            p["imports"] = [s.replace("{BASE}", self.base.replace(os.sep, "/")) for s in p["imports"]]
            return p

        for fd in case["files"] + case["decoys"] + [{"path": case["main_path"], "prog": case["main"]}]:
            path = os.path.join(self.base, fd["path"])
            os.makedirs(os.path.dirname(path), exist_ok=True)
            r = render_fn(fix(fd["prog"]))
            self.texts[fd["path"]] = r.text
            self.rendered[fd["path"]] = r
            if fd["path"] == case["main_path"]:
                import zlib

                if zlib.crc32(r.text.encode("utf-8")) % 3 == 0:
                    # environment: the main file is reached through a symbolic link (a function of its text); the real
                    # file lives in another directory at another depth. Imports and source-map paths are relative to
                    # the path the caller passes, i.e. to the link.
                    real = os.path.join(self.base, "store", "checked", "out", "main_real.exps")
                    os.makedirs(os.path.dirname(real), exist_ok=True)
                    with open(real, "w", encoding="utf-8") as fh:
                        fh.write(r.text)
                    if os.path.lexists(path):
                        os.remove(path)
                    os.symlink(real, path)
                    self.main_is_link = True
                    continue
            if os.path.islink(path):
                os.remove(path)
            with open(path, "w", encoding="utf-8") as fh:
                fh.write(r.text)
        for lp in case["lookup"]:
            os.makedirs(os.path.join(self.base, lp), exist_ok=True)
        self.main_path = os.path.join(self.base, case["main_path"])
        self.lookup_paths = [os.path.join(self.base, lp) for lp in case["lookup"]]

    def close(self):
        if not self.keep:
            shutil.rmtree(self.base, ignore_errors=True)

    def __enter__(self):
        return self

    def __exit__(self, *a):
        self.close()
