"""C08 - compile-time source map: every emitted op maps to where it was written (DESIGN.md 4, C08)."""
from __future__ import annotations

import copy
import os

from hypothesis import strategies as st

from vf import gen_macro, gen_prog, model, render, spec_tables as T
from vf.core import Failure, call_guard
from vf.cut import compile_text_budget as compile_text

ID = "C08"
LEVEL = "exploration"
RULE = (
    "gen_prog programs without macros, with macros in one file and with macros spread over 1-4 imported files; unique "
    "operation names and header variables; rendered with a drawn layout (several statements per line, arbitrary "
    "indentation, comments). Oracle on compile().source_map: every emitted op has an entry; a direct operation with a "
    "unique name maps exactly to the zero-based line/column of its name; a condition / switch / case / assignment op "
    "with a unique variable maps to the start of its statement or of its header; every other direct entry is the start "
    "of some statement or header of the file; a macro op with a unique name carries the defining file relative to the "
    "compiled file (null for the same file), the innermost defining macro and its position in that file; other macro "
    "entries name an existing macro and a statement/header start inside it; a call site recorded in called_in is the "
    "position of a call statement (in the named file) to a macro from which the entry's macro is reachable, every "
    "routine-level call whose macro body starts with an op-emitting statement is recorded exactly once; return "
    "addresses lie after every uniquely named op of their expansion (nested ones included) and not after the first such "
    "op following it; the files named equal the imported files that contributed ops and equal "
    "IncludedUsageMap.included_files; recorded position marks cover exactly the marks in emitted parameters (marks "
    "passed as call arguments may be recorded without being emitted). Non-trivial = >= 1 macro expansion with >= 2 ops "
    "or >= 1 dropped op (offset gap); distinct by content hash."
)
ASSUMPTIONS = [
    "ops inserted by the compiler (jumps, the Return behind a trailing label) only need to map to the start of some statement, block or header of the file",
    "when the first op of an expansion is also the first op of a nested expansion only one call site can be stored; either is accepted",
]
CASES = {"quick": 4800, "thorough": 40000}

_tape = st.lists(st.integers(0, 10000), min_size=1, max_size=40)


def strategy(tier):
    from vf.core import weighted

    prog = weighted((1, gen_prog.programs(max_stmts=30)), (1, gen_macro.macro_programs(single_file=True, max_stmts=35)),
                    (2, gen_macro.macro_programs(single_file=False, max_stmts=35)))
    return st.fixed_dictionaries({"p": prog, "layout": st.one_of(st.none(), _tape), "spell": _tape})


class FileInfo:
    def __init__(self, rel, prog, rendered):
        self.rel = rel  # relative to the main file's directory; None for the main file
        self.prog = prog
        self.r = rendered
        self.starts = set(self.r.marks.values())
        # statements: path -> stmt dict
        self.stmts = {}
        self.op_names = {}  # unique op name -> ("m"/"r", idx, path)
        self.calls = {}  # call statement path -> macro name
        self.vars = {}  # unique var name -> [positions]

    def index(self):
        def rec(stmts, prefix):
            for i, s in enumerate(stmts):
                self.one(s, prefix + (i,))

        for i, m in enumerate(self.prog.get("macros", [])):
            rec(m["body"], ("m", i))
        for i, r in enumerate(self.prog["routines"]):
            rec(r["body"], ("r", i))

    def one(self, s, path):
        self.stmts[path] = s
        k = s["k"]
        pos = self.r.marks.get(("stmt", path))
        if k == "op":
            self.op_names.setdefault(s["name"] + _argkey(s), []).append((path, pos))
        elif k == "mcall":
            self.calls[path] = s["name"]
        elif k == "with":
            self.one(s["stmt"], path + ("w",))
        elif k == "assign":
            v = s.get("target")
            if v and v["t"] == "const":
                self.vars.setdefault(v["v"], []).append({pos})
        elif k == "if":
            clauses = [(s, path, "b")] + [(e, path + ("e", j), None) for j, e in enumerate(s.get("elifs", []))]
            for cl, cpath, _ in clauses:
                for j, c in enumerate(cl["conds"]):
                    self.cond(c, cpath + ("c", j), pos)
            for i, x in enumerate(s["body"]):
                self.one(x, path + ("b", i))
            for j, e in enumerate(s.get("elifs", [])):
                for i, x in enumerate(e["body"]):
                    self.one(x, path + ("e", j, "b", i))
            if s.get("else") is not None:
                for i, x in enumerate(s["else"]):
                    self.one(x, path + ("x", i))
        elif k == "switch":
            h = s["head"]
            hp = self.r.marks.get(("swhead", path))
            v = h.get("v")
            if v and v["t"] == "const":
                self.vars.setdefault(v["v"], []).append({pos, hp})
            if h["h"] == "op":
                self.op_names.setdefault(h["op"]["name"] + _argkey(h["op"]), []).append((path + ("h",), hp))
            for j, c in enumerate(s["cases"]):
                for i, x in enumerate(c["body"]):
                    self.one(x, path + ("k", j, i))
        elif k in ("forever", "while", "for"):
            if k != "forever":
                self.cond(s["cond"], path + ("c", 0), pos)
            if k == "for":
                self.one(s["init"], path + ("i",))
                self.one(s["inc"], path + ("n",))
            for i, x in enumerate(s["body"]):
                self.one(x, path + ("b", i))
        elif k == "msgswitch":
            v = s["v"]
            if v["t"] == "const":
                self.vars.setdefault(v["v"], []).append({pos})

    def cond(self, c, cpath, stmt_pos):
        cp = self.r.marks.get(("cond", cpath))
        v = c.get("l") or c.get("var")
        if v and v["t"] == "const":
            self.vars.setdefault(v["v"], []).append({cp, stmt_pos})
        if c["c"] == "opn":
            self.op_names.setdefault(c["op"]["name"] + _argkey(c["op"]), []).append((cpath, cp))


def _argkey(op):
    """ops with a real EoS name carry a unique integer tag as first argument"""
    if op["args"] and op["args"][0]["t"] == "int" and op["args"][0]["v"] >= 100000:
        return f"#{op['args'][0]['v']}"
    return ""


def _emitted_key(op):
    name = op.op_code.name
    if op.params and isinstance(op.params[0], int) and not isinstance(op.params[0], bool) and op.params[0] >= 100000:
        return f"{name}#{op.params[0]}"
    return name


def macro_of_path(fi, path):
    if path and path[0] == "m":
        return fi.prog["macros"][path[1]]["name"]
    return None


def evaluate(case, stt):
    fails = []
    p = case["p"]
    multi = bool(p.get("multi"))

    def rnd(prog):
        lay = render.Tape(case["layout"]) if case["layout"] else None
        return render.render(prog, render.Tape(case["spell"]), lay)

    files: dict[str | None, FileInfo] = {}
    if multi:
        ws = gen_macro.Workspace(p, rnd)
        try:
            main_dir = os.path.dirname(ws.main_path)
            for fd in p["files"]:
                rel = os.path.relpath(os.path.join(ws.base, fd["path"]), main_dir)
                fixed = copy.deepcopy(fd["prog"])
                files[rel] = FileInfo(rel, fixed, ws.rendered[fd["path"]])
            files[None] = FileInfo(None, p["main"], ws.rendered[p["main_path"]])
            main_text = ws.texts[p["main_path"]]
            comp, exc = call_guard(lambda: compile_text(main_text, ws.main_path, ws.lookup_paths))
            shown = "\n".join(f"=== {pth}\n{t}" for pth, t in ws.texts.items() if not pth.startswith("lp") or "DECOY" not in t)
            main_abs = ws.main_path
            abs_of = {rel: os.path.abspath(os.path.join(main_dir, rel)) for rel in files if rel is not None}
            all_macros = p["all_macros"]
        finally:
            ws.close()
    else:
        r = rnd(p)
        files[None] = FileInfo(None, p, r)
        main_text = r.text
        main_abs = "/nonexistent/main.exps"
        comp, exc = call_guard(lambda: compile_text(main_text, main_abs))
        shown = main_text
        abs_of = {}
        all_macros = p.get("macros", [])
    if exc is not None:
        stt.count("rejected_by_compiler")
        stt.add("rejected:" + exc[0])
        return fails
    for fi in files.values():
        fi.index()
    stt.count(f"files:{len(files)}")
    sm = comp.source_map
    emitted = [(op.offset, op) for r in comp.routine_ops for op in r]
    offsets = sorted(o for o, _ in emitted)
    gaps = any(b - a > 1 for a, b in zip(offsets, offsets[1:]))
    macro_entries = dict(sm.collect_mappings__macros())
    main = files[None]
    macro_home = {}  # macro name -> (rel file, index)
    for rel, fi in files.items():
        for i, m in enumerate(fi.prog.get("macros", [])):
            macro_home[m["name"]] = (rel, i)
    cg = gen_macro.call_graph(all_macros)

    def reachable(frm, to):
        seen, stack = set(), [frm]
        while stack:
            x = stack.pop()
            if x == to:
                return True
            if x in seen:
                continue
            seen.add(x)
            stack.extend(cg.get(x, ()))
        return False

    # ---- 1. every op has an entry; direct entries
    uniq_direct = {}
    for rel, fi in files.items():
        for key, lst in fi.op_names.items():
            for pth, ps in lst:
                uniq_direct.setdefault(key, []).append((rel, pth, ps))
    # written exactly once in the whole workspace (an op like Destroy() may be written several times)
    uniq_direct = {k: v[0] for k, v in uniq_direct.items() if len(v) == 1}
    name_offsets = {}
    for off, op in emitted:
        m = sm.get_op_line_and_col(off)
        if m is None:
            fails.append(Failure("missing_entry", f"op {op.op_code.name}@{off} has no source map entry\n{shown}"))
            continue
        key = _emitted_key(op)
        name_offsets.setdefault(key, []).append(off)
        is_macro = off in macro_entries
        if not is_macro:
            pos = (m.line, m.column)
            if key in uniq_direct and uniq_direct[key][0] is None and uniq_direct[key][1][0] == "r":
                want = uniq_direct[key][2]
                if pos != want:
                    fails.append(Failure("direct_op_position", f"{key}@{off} written at {want}, mapped to {pos}\n{shown}"))
            else:
                var = op.params[0] if op.params else None
                vname = getattr(var, "name", None)
                places = main.vars.get(vname) if vname else None
                fam = op.op_code.name in T.JUMP_OPS or op.op_code.name in T.FLAG_OPS or op.op_code.name in T.SWITCH_HEAD_OPS or op.op_code.name in T.MSG_SWITCHES
                if places and len(places) == 1 and fam and vname.startswith("$V_"):
                    if pos not in places[0]:
                        fails.append(Failure(f"direct_header_position:{op.op_code.name}", f"{op.op_code.name}({vname})@{off} mapped to {pos}, admissible {sorted(x for x in places[0] if x)}\n{shown}"))
                elif pos not in main.starts:
                    fails.append(Failure(f"direct_not_a_start:{op.op_code.name}", f"{op.op_code.name}@{off} mapped to {pos}, which is not the start of a statement or header\n{shown}"))
    # ---- 2. macro entries
    named_files = set()
    for off, e in sorted(macro_entries.items()):
        op = dict(emitted).get(off)
        if op is None:
            continue  # entry for a dropped op
        rel = e.relpath_included_file
        if rel is not None:
            named_files.add(os.path.normpath(rel))
        fi = files.get(os.path.normpath(rel) if rel is not None else None)
        if fi is None:
            fails.append(Failure("macro_file_unknown", f"macro entry @{off} names file {rel!r}; known: {sorted(str(k) for k in files)}\n{shown}"))
            continue
        if e.macro_name not in macro_home or macro_home[e.macro_name][0] != fi.rel:
            fails.append(Failure("macro_name_or_file", f"entry @{off}: macro {e.macro_name!r} is not defined in file {rel!r}\n{shown}"))
            continue
        mi = macro_home[e.macro_name][1]
        pos = (e.line, e.column)
        key = _emitted_key(op)
        if key in uniq_direct and uniq_direct[key][1][0] == "m":
            wrel, wpath, wpos = uniq_direct[key]
            wmacro = files[wrel].prog["macros"][wpath[1]]["name"]
            if (fi.rel, e.macro_name, pos) != (wrel, wmacro, wpos):
                fails.append(Failure("macro_op_position", f"{key}@{off} is written in {wrel!r}:{wmacro} at {wpos}, entry says {rel!r}:{e.macro_name} at {pos}\n{shown}"))
        else:
            inside = {v for t, v in fi.r.marks.items() if len(t) > 1 and isinstance(t[1], tuple) and t[1][:2] == ("m", mi)} | {fi.r.marks.get(("macro", mi))}
            if pos not in inside:
                fails.append(Failure(f"macro_entry_not_in_macro:{op.op_code.name}", f"entry @{off} ({op.op_code.name}) points to {pos} in {rel!r}, which is not a statement/header start of macro {e.macro_name}\n{shown}"))
        if e.called_in is not None:
            cfile, cl, cc = e.called_in
            cfi = files.get(os.path.normpath(cfile) if cfile is not None else None)
            sites = {} if cfi is None else {cfi.r.marks.get(("stmt", pth)): nm for pth, nm in cfi.calls.items()}
            if (cl, cc) not in sites:
                fails.append(Failure("called_in_not_a_call_site", f"entry @{off}: called_in {e.called_in} is not the position of a macro call\n{shown}"))
            elif not reachable(sites[(cl, cc)], e.macro_name):
                fails.append(Failure("called_in_wrong_macro", f"entry @{off} of macro {e.macro_name}: called_in {e.called_in} is a call of {sites[(cl, cc)]}\n{shown}"))
        if e.return_addr is None or e.return_addr <= off:
            fails.append(Failure("return_addr_not_after_op", f"entry @{off}: return address {e.return_addr}\n{shown}"))
    # routine-level call sites recorded exactly once
    sure = ("op", "assign", "with", "msgswitch", "if", "switch", "for", "while", "forever", "ctl", "jump", "call")
    for pth, nm in main.calls.items():
        if pth[0] != "r":
            continue
        site = main.r.marks.get(("stmt", pth))
        n = sum(1 for e in macro_entries.values() if e.called_in is not None and e.called_in[0] is None and (e.called_in[1], e.called_in[2]) == site)
        body = next((m["body"] for m in all_macros if m["name"] == nm), [])
        first = next((s for s in body if s["k"] != "label"), None)
        if n > 1:
            fails.append(Failure("call_site_recorded_twice", f"call of {nm} at {site} recorded {n} times\n{shown}"))
        elif n == 0 and first is not None and first["k"] in sure:
            # the expansion must have emitted something unless it was dropped entirely
            ops_of = [off for off, e in macro_entries.items() if off in dict(emitted)]
            if ops_of:
                fails.append(Failure("call_site_not_recorded", f"call of {nm} at {site}: no entry carries this call position\n{shown}"))
    # ---- 3. return address bounds from the reference expansion structure
    if all_macros:
        try:
            inl = gen_macro.Inliner({m["name"]: m for m in all_macros})
            full = {"imports": [], "macros": all_macros, "routines": main.prog["routines"]}
            flat = gen_macro.inline_program(full, None, inl)
            groups = {}  # expansion id -> offsets of uniquely named ops inside (nested included)
            parents = {x: d["parent"] for x, d in inl.expansions.items()}

            def visit(s, depth):
                x = s.get("_x")
                if x is None:
                    return
                names = []
                if s["k"] == "op":
                    names.append(s["name"] + _argkey(s))
                for nm in names:
                    offs = name_offsets.get(nm, [])
                    if len(offs) == 1 and nm in uniq_direct:
                        pass
                    # an op of a macro body is emitted once per expansion: match by order of expansion
                    cur = x
                    while cur is not None:
                        groups.setdefault(cur, []).append(nm)
                        cur = parents.get(cur)

            for r in flat["routines"]:
                gen_prog.walk(r["body"], visit)
            # op names inside macros are emitted once per expansion -> offsets in emission order
            # (expansions are numbered in compile order, which is the order of first emission)
            occ = {}
            for x in sorted(inl.expansions):
                pass
            # map (name, k-th expansion containing it innermost) -> offset
            innermost = {}
            for r in flat["routines"]:
                def v2(s, depth):
                    if s["k"] == "op" and s.get("_x") is not None:
                        innermost.setdefault(s["name"] + _argkey(s), []).append(s["_x"])
                gen_prog.walk(r["body"], v2)
            off_of = {}
            ok_names = True
            for nm, xs in innermost.items():
                offs = sorted(name_offsets.get(nm, []))
                # only ops that occur in exactly one expansion can be placed without knowing the order in which
                # the compiler lays out blocks (an else block is emitted before the if block, ...)
                if len(offs) != 1 or len(xs) != 1:
                    continue
                off_of[(nm, xs[0])] = offs[0]
            ext = {}  # expansion -> offsets of uniquely placed ops inside incl nested
            for (nm, xid), off in off_of.items():
                cur = xid
                while cur is not None:
                    ext.setdefault(cur, []).append(off)
                    cur = parents.get(cur)
            all_known = sorted(off_of.values())
            for (nm, xid), off in off_of.items():
                e = macro_entries.get(off)
                if e is None or e.return_addr is None:
                    continue
                inside = ext.get(xid, [])
                hi = max(inside)
                after = [o for o in all_known if o > hi and o not in inside]
                # ops of the same routine only
                rid = next(i for i, r in enumerate(comp.routine_ops) if any(op.offset == off for op in r))
                same = {op.offset for op in comp.routine_ops[rid]}
                after = [o for o in after if o in same]
                # the first op written directly in the routine that is EMITTED behind the expansion (ops of a following
                # expansion are skipped): the return address may not lie after it
                rops = comp.routine_ops[rid]
                last_i = max(i for i, op in enumerate(rops) if op.offset in inside)
                nxt_direct = next((op for op in rops[last_i + 1:] if op.offset not in macro_entries), None)
                if nxt_direct is not None and e.return_addr > nxt_direct.offset and e.return_addr > hi:
                    fails.append(Failure("return_addr_after_next_emitted_op", f"{nm}@{off}: return address {e.return_addr} lies after @{nxt_direct.offset} ({nxt_direct.op_code.name}), the first direct op emitted behind the expansion\n{shown}"))
                if e.return_addr <= hi:
                    fails.append(Failure("return_addr_inside_expansion", f"{nm}@{off}: return address {e.return_addr} but op @{hi} still belongs to the expansion\n{shown}"))
                elif after and e.return_addr > min(after):
                    fails.append(Failure("return_addr_after_next_op", f"{nm}@{off}: return address {e.return_addr} lies after @{min(after)}, the first op following the expansion\n{shown}"))
        except (gen_macro.InlineError, model.ModelError):
            stt.count("inline_failed")
    # ---- 4. files
    contributed = {os.path.normpath(e.relpath_included_file) for off, e in macro_entries.items() if e.relpath_included_file is not None}
    expected_files = set()
    for off, op in emitted:
        key = _emitted_key(op)
        if key in uniq_direct and uniq_direct[key][0] is not None:
            expected_files.add(uniq_direct[key][0])
    if not expected_files <= contributed:
        fails.append(Failure("files_missing", f"files that contributed ops {sorted(expected_files)} vs files named by macro entries {sorted(contributed)}\n{shown}"))
    if not contributed <= {k for k in files if k is not None}:
        fails.append(Failure("files_unknown", f"macro entries name {sorted(contributed)}, imported files are {sorted(str(k) for k in files)}"))
    from explorerscript.included_usage_map import IncludedUsageMap

    inc = IncludedUsageMap(sm, main_abs).included_files
    exp_inc = {abs_of[k] for k in contributed if k in abs_of}
    if multi and {os.path.normpath(x) for x in inc} != {os.path.normpath(x) for x in exp_inc}:
        fails.append(Failure("included_usage_map", f"{sorted(inc)} vs {sorted(exp_inc)}"))
    # ---- 5. position marks
    em_marks = set()
    for off, op in emitted:
        for prm in op.params:
            v = model.norm_real_param(prm)
            if isinstance(v, tuple) and v[0] == "p":
                em_marks.add((prm.name, prm.x_offset, prm.y_offset, prm.x_relative, prm.y_relative))
    rec = set()
    for mk in sm.get_position_marks__direct():
        rec.add((mk.name, mk.x_offset, mk.y_offset, mk.x_relative, mk.y_relative))
    for f_, n_, mk in sm.get_position_marks__macros():
        rec.add((mk.name, mk.x_offset, mk.y_offset, mk.x_relative, mk.y_relative))
    arg_marks = set()

    def collect_args(s, d):
        if s["k"] == "mcall":
            for a in s["args"]:
                if a["t"] == "pos":
                    arg_marks.add(a["name"])

    for fi in files.values():
        for m in fi.prog.get("macros", []):
            gen_prog.walk(m["body"], collect_args)
        for r in fi.prog["routines"]:
            gen_prog.walk(r["body"], collect_args)
    if not em_marks <= rec:
        fails.append(Failure("position_mark_not_recorded", f"emitted marks not in the source map: {sorted(em_marks - rec)}\n{shown}"))
    extra = {m for m in rec - em_marks if m[0] not in arg_marks}
    # marks in code that was dropped as unreachable may be recorded without being emitted: only marks whose op was emitted count
    dropped_names = set()
    for fi in files.values():
        for key, lst in fi.op_names.items():
            if key not in name_offsets:
                for pth, _ in lst:
                    st_ = fi.stmts.get(pth)
                    if st_ and st_.get("k") == "op":
                        dropped_names.update(a["name"] for a in st_["args"] if a["t"] == "pos")
    extra = {m for m in extra if m[0] not in dropped_names}
    if extra:
        fails.append(Failure("position_mark_not_emitted", f"source map lists marks that no emitted parameter carries: {sorted(extra)}\n{shown}"))
    # ---- classification
    n_macro_ops = len([o for o in macro_entries if o in dict(emitted)])
    if n_macro_ops >= 2 or gaps:
        stt.mark_nontrivial(case)
    if n_macro_ops:
        stt.count("has_macro_ops")
    if gaps:
        stt.count("offset_gap")
    if case["layout"]:
        stt.count("random_layout")
    if len(stt.samples) < 2 and n_macro_ops >= 3 and not fails:
        stt.sample({"files": shown[:1500], "macro_entries": {str(k): v.serialize() for k, v in list(sorted(macro_entries.items()))[:8]}})
    return fails


def shrink_candidates(case):
    p = case["p"]
    if p.get("multi"):
        return
    for q in gen_prog.shrink_candidates(p):
        names = {m["name"] for m in q.get("macros", [])}
        ok = True

        def fn(s, d):
            nonlocal ok
            if s["k"] == "mcall" and s["name"] not in names:
                ok = False

        for m in q.get("macros", []):
            gen_prog.walk(m["body"], fn)
        for r in q["routines"]:
            gen_prog.walk(r["body"], fn)
        if ok:
            q = dict(q)
            q.pop("order", None)
            yield dict(case, p=q)
