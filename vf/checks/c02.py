"""C02 - decompiled source denotes the input routines; recompiling preserves behaviour (DESIGN.md 4, C02)."""
from __future__ import annotations

from vf import decomp, gen_prog, gen_ssb, model, parse, spec_tables as T
from vf.core import Failure, call_guard
from vf.cut import compile_text

ID = "C02"
LEVEL = "translation_validation"
RULE = (
    "well-formed routine sets from gen_ssb strata 1 (compiled generated programs renumbered with gaps), 2 (plus "
    "behaviour-preserving re-layout) and 3 (free flow graphs over all opcode families with special syntax). For each "
    "input x the decompiled text is (a) compiled - it must be accepted - and (b) READ BY THE REFERENCE SEMANTICS "
    "(parse -> S), not by the compiler: S(parse(text)) must be trace-tree equal to the machine model M(x) for every "
    "routine over all paths, with equal routine tables; (c) M(compile(text)) == M(x) as the derived claim. SsbScript "
    "fallback outputs are counted and left to C06. Non-trivial = x has >= 1 conditional op and the output is structured "
    "ExplorerScript; distinct by content hash."
    ' Strata of the routine-set generator also include a routine nested 10-22 blocks deep (4 %) and one nested, or chained, 60-240 blocks deep (0.3 %). Calls into the code under test run with the recursion limit the package itself configures (vf.cut.cut_stack); a second settings object with other constant names is built before every decompilation.'
)
ASSUMPTIONS = [
    "reference semantics S / table of DESIGN.md Appendix A; dungeon-mode numbers 0..3 equal their configured constants",
    "well-formedness of DESIGN.md Appendix B; inputs whose decompilation exceeds the step budget or raises are C06's",
]
CASES = {"quick": 9600, "thorough": 120000}

DM = {("c", n): i for i, n in enumerate(T.DUNGEON_MODE_CONSTANTS)}


def label_eq(a, b):
    if a == b:
        return True
    if a is None or b is None or a[0] != b[0] or len(a[1]) != len(b[1]):
        return False
    if a[0] not in ("Case", "flag_SetDungeonMode"):
        return False
    for x, y in zip(a[1], b[1]):
        if x == y:
            continue
        if DM.get(x, x) == DM.get(y, y):
            continue
        return False
    return True


class KFList(list):
    """Failures of a case that matches a known-finding predicate all go to that finding's bucket."""

    def __init__(self, known):
        super().__init__()
        self.known = known

    def append(self, f):
        if self.known:
            f = Failure(self.known, f.message)
        super().append(f)


def strategy(tier):
    return decomp.input_strategy(w1=2, w2=2, w3=3)


def shape_sig(c, text):
    feats = decomp.features(c)
    for f_ in ("cross_routine_jump", "call", "leading_jump", "backward_jump", "msg_switch", "ctx_op"):
        if f_ in feats:
            return f_
    if "switch (" in text:
        return "switch"
    return "other"


def evaluate(case, stt):
    fails = []
    c, prog = decomp.materialise(case, stt)
    if c is None:
        return fails
    stt.count(f"stratum:{c.get('stratum')}")
    ok, why = gen_ssb.well_formed(c)
    if not ok:
        stt.count("discard_not_well_formed")
        return fails
    infos, rops, coros = gen_ssb.build(c)
    try:
        gm = model.machine_graph(rops)
        gm.reachable_stats()
    except model.OpFreeCycle:
        stt.count("discard_jump_only_cycle")
        return fails
    feats = decomp.features(c)
    for f_ in feats:
        stt.count(f_)
    status, a, b = decomp.run_decompiler(c)
    if status != "ok":
        stt.count("decompiler_failed_(C06)")
        if status == "budget":
            stt.skipped_budget += 1
        return fails
    text = a
    desc = gen_ssb.describe(c)
    if text.startswith(decomp.MARKER):
        stt.count("fallback_(C06)")
        return fails
    stt.add("programs")
    known = None
    if gen_ssb.foreign_targets_not_locally_reachable(c):
        known = "kf_op_reachable_only_from_another_routine"
    elif gen_ssb.inexpressible_case_ops(c):
        known = "kf_case_scenario_vs_case_value"
    elif gen_ssb.case_jumps_backward_or_into_chain(c):
        known = "kf_case_jumps_backward"
    elif gen_ssb.case_op_is_jump_target(c):
        known = "kf_case_op_is_jump_target"
    elif gen_ssb.degenerate_branch_in_loop(c):
        known = "kf_degenerate_branch_in_loop"
    elif gen_ssb.call_on_cycle(c):
        known = "kf_call_on_cycle"
    elif gen_ssb.call_target_only_reachable_by_call(c):
        known = "kf_code_reachable_only_by_call"
    fails = KFList(known)
    # (a) accepted by the compiler
    comp, exc = call_guard(lambda: compile_text(text))
    if exc is not None:
        fails.append(Failure("rejected:" + exc[0], f"decompiled text is rejected: {exc[1]}\n{desc}\n--- text:\n{text}"))
    # (b) read by the reference semantics
    ast, exc2 = call_guard(lambda: parse.parse_program(text))
    if exc2 is not None:
        if exc is None:
            fails.append(Failure("unparsable:" + exc2[0], f"{exc2[1]}\n{desc}\n--- text:\n{text}"))
        return fails
    try:
        gs, table_s = model.source_graph(ast)
    except model.SemanticsError as e:
        fails.append(Failure("meaningless_text", f"decompiled text is statically meaningless: {e}\n{desc}\n--- text:\n{text}"))
        return fails
    if "conditional" in feats:
        stt.mark_nontrivial(c)
        stt.add("disagreements_checked", 0)
    try:
        ok, msg, pairs = model.equivalent(gm, gs, label_eq)
    except model.OpFreeCycle:
        fails.append(Failure("text_op_free_cycle", f"decompiled text contains an op-free cycle\n{desc}\n--- text:\n{text}"))
        return fails
    stt.add("paths_pairs", pairs)
    if not ok:
        fails.append(Failure("behaviour:" + shape_sig(c, text), f"text does not denote the input: {msg}\n{desc}\n--- text:\n{text}"))
    table_x = gen_ssb.routine_table(c)
    if table_s != table_x:
        fails.append(Failure("routine_table", f"expected {table_x} got {table_s}\n--- text:\n{text}"))
    # (c) derived claim through the real compiler
    if comp is not None and ok:
        try:
            gc = model.machine_graph(comp.routine_ops)
            ok2, msg2, _ = model.equivalent(gm, gc, label_eq)
            if not ok2:
                fails.append(Failure("recompiled_behaviour", f"compile(decompile(x)) differs from x although the text denotes x (compiler defect, see C01): {msg2}\n--- text:\n{text}"))
        except (model.ModelError, model.OpFreeCycle) as e:
            fails.append(Failure("recompiled_malformed", f"{e}\n--- text:\n{text}"))
    if len(stt.samples) < 2 and "conditional" in feats and len(text) > 200:
        stt.sample({"input": desc, "decompiled": text[:1500]})
    return fails


def shrink_candidates(case):
    if "prog" in case:
        for p in gen_prog.shrink_candidates(case["prog"]):
            yield dict(case, prog=p)
    else:
        for c in gen_ssb.shrink_candidates(case):
            if gen_ssb.well_formed(c)[0]:
                yield c
