#!/usr/bin/env python3
"""Validates a seeded breaking change and runs the checks against it.

usage: tools/check_seeded.py <name> <seed dir with patch.diff demo.py notes.md> --property C01 [--checks C01,C03] [--keep]

Steps (all in a scratch git worktree of /repo under /tmp, removed afterwards):
  1. patch applies to a clean checkout of /repo HEAD
  2. the repository's test suite passes with the patch (111 passed)
  3. demo.py PASSes on the pristine tree and FAILs on the patched tree
  4. the named checks (default: the property's own check) are run against the patched tree (VERIF_REPO=<scratch>)
Writes /verif/seeded/<name>/{patch.diff,demo.py,notes.md,meta.json} when --keep is given.
"""
from __future__ import annotations

import argparse
import json
import os
import shutil
import subprocess
import sys
import tempfile
import time

HERE = os.path.dirname(os.path.dirname(os.path.abspath(__file__)))


def sh(cmd, cwd=None, env=None, timeout=1800):
    p = subprocess.run(cmd, cwd=cwd, env=env, capture_output=True, text=True, timeout=timeout, shell=isinstance(cmd, str))
    return p.returncode, p.stdout + p.stderr


def main():
    ap = argparse.ArgumentParser()
    ap.add_argument("name")
    ap.add_argument("seed_dir")
    ap.add_argument("--property", required=True)
    ap.add_argument("--checks", default=None)
    ap.add_argument("--tier", default="quick")
    ap.add_argument("--keep", action="store_true")
    ap.add_argument("--seeds", default="1")
    a = ap.parse_args()
    checks = [] if a.checks == "none" else (a.checks or a.property).split(",")
    a.seed_dir = os.path.abspath(a.seed_dir)
    patch = os.path.join(a.seed_dir, "patch.diff")
    demo = os.path.join(a.seed_dir, "demo.py")
    meta = {"name": a.name, "property": a.property, "checks_run": {}, "at": time.strftime("%Y-%m-%d %H:%M:%S")}
    scratch = tempfile.mkdtemp(prefix="vf-seed-", dir="/tmp")
    os.rmdir(scratch)
    rc, out = sh(["git", "-C", "/repo", "worktree", "add", "--detach", scratch, "HEAD"])
    if rc != 0:
        print(out)
        return 2
    try:
        meta["repo_head"] = sh(["git", "-C", "/repo", "log", "--format=%h", "-1"])[1].strip()
        env = dict(os.environ, PYTHONPATH=scratch, REPO_DIR=scratch)
        # 3a. demo on pristine
        rc0, out0 = sh(["/venv/bin/python", demo], cwd=scratch, env=env, timeout=600)
        meta["demo_pristine"] = {"exit": rc0, "tail": out0[-300:]}
        rc, out = sh(["git", "apply", "--whitespace=nowarn", os.path.abspath(patch)], cwd=scratch)
        meta["patch_applies"] = rc == 0
        if rc != 0:
            print("patch does not apply:\n" + out)
            print(json.dumps(meta, indent=1))
            return 1
        # 2. test suite
        rc, out = sh("/venv/bin/python -m pytest -q -p no:cacheprovider 2>&1 | tail -3", cwd=scratch, env=env, timeout=900)
        meta["tests"] = out.strip().splitlines()[-1] if out.strip() else ""
        meta["tests_pass"] = "111 passed" in out
        # 3b. demo on patched
        rc1, out1 = sh(["/venv/bin/python", demo], cwd=scratch, env=env, timeout=600)
        meta["demo_patched"] = {"exit": rc1, "tail": out1[-400:]}
        meta["demo_ok"] = rc0 == 0 and rc1 != 0
        # 4. checks
        for chk in checks:
            for seed in a.seeds.split(","):
                evdir = tempfile.mkdtemp(prefix="vf-seed-ev-", dir="/tmp")
                env2 = dict(os.environ, VERIF_REPO=scratch, VERIF_SEED=seed, VERIF_EVIDENCE_DIR=evdir, VERIF_SHRINK_S="20")
                t0 = time.time()
                rc, out = sh(["/venv/bin/python", "-m", "vf.run", chk, "--tier", a.tier], cwd=HERE, env=env2, timeout=7200)
                viol = [line for line in out.splitlines() if line.startswith("VIOLATION")]
                buckets = [line.strip()[:200] for line in out.splitlines() if line.startswith("  bucket") or line.startswith("  replay")]
                meta["checks_run"][f"{chk}@seed{seed}" + ("" if a.tier == "quick" else "-" + a.tier)] = {"exit": rc, "violations": len(viol), "buckets": buckets[:6], "wall_s": round(time.time() - t0, 1),
                                                            "caught": rc == 1 and bool(viol)}
                shutil.rmtree(evdir, ignore_errors=True)
        print(json.dumps(meta, indent=1))
        if a.keep:
            dst = os.path.join(HERE, "seeded", a.name)
            os.makedirs(dst, exist_ok=True)
            same = os.path.realpath(a.seed_dir) == os.path.realpath(dst)
            if not same:
                shutil.copy(patch, os.path.join(dst, "patch.diff"))
                shutil.copy(demo, os.path.join(dst, "demo.py"))
            notes = os.path.join(a.seed_dir, "notes.md")
            if os.path.exists(notes) and not same:
                shutil.copy(notes, os.path.join(dst, "notes.md"))
            for extra in ("patch.orig.diff",):
                if os.path.exists(os.path.join(a.seed_dir, extra)) and not same:
                    shutil.copy(os.path.join(a.seed_dir, extra), os.path.join(dst, extra))
            old = {}
            mp = os.path.join(dst, "meta.json")
            if os.path.exists(mp):
                old = json.load(open(mp))
                old_runs = old.get("checks_run", {})
                old_runs.update(meta["checks_run"])
                meta["checks_run"] = old_runs
            json.dump(meta, open(mp, "w"), indent=1)
    finally:
        sh(["git", "-C", "/repo", "worktree", "remove", "--force", scratch])
        shutil.rmtree(scratch, ignore_errors=True)
    return 0


if __name__ == "__main__":
    sys.exit(main())
