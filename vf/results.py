"""Canonical, byte-comparable results of compile / decompile calls (used by C11 and C12)."""
from __future__ import annotations

import json

from vf import canon, decomp, gen_ssb, model, render
from vf.cut import BudgetExceeded, StepBudget, compile_text, decompile_ssbs

BUDGET = 5_000_000
# scratch workspaces of this run: one directory per run (two runs at the same time must not remove each other's files),
# handed to forked shards and to fresh interpreter processes through the environment
import os as _os

WS_ROOT = _os.environ.get("VERIF_WS_ROOT") or f"/tmp/vf-ws-{_os.getpid()}"
_os.environ["VERIF_WS_ROOT"] = WS_ROOT


def describe_exc(e: BaseException) -> dict:
    return {"raised": type(e).__name__, "message": str(e)[:300]}


def compile_result(text: str, file_name=None, compiler=None) -> dict:
    try:
        with StepBudget(BUDGET):
            c = compile_text(text, compiler=compiler) if file_name is None else compile_text(text, file_name, compiler=compiler)
    except BudgetExceeded:
        return {"raised": "BUDGET"}
    except Exception as e:  # noqa
        return describe_exc(e)
    return {
        "ops": json.loads(json.dumps(canon.canon_ops(c.routine_ops), default=str)),
        "offsets": [[op.offset for op in r] for r in c.routine_ops],
        "table": json.loads(json.dumps(model.real_routine_table(c.routine_infos, c.named_coroutines), default=str)),
        "source_map": c.source_map.serialize(),
    }


def decompile_result(built) -> dict:
    from vf.cut import decompile

    infos, rops, coros = built
    try:
        with StepBudget(BUDGET):
            text, sm = decompile(infos, rops, coros)
    except BudgetExceeded:
        return {"raised": "BUDGET"}
    except Exception as e:  # noqa
        return describe_exc(e)
    return {"text": text, "source_map": sm.serialize()}


def ssbs_result(built) -> dict:
    infos, rops, coros = built
    try:
        text, sm = decompile_ssbs(infos, rops, coros)
    except Exception as e:  # noqa
        return describe_exc(e)
    return {"text": text, "source_map": sm.serialize()}


def input_text(item) -> str:
    """item: {"kind": "program", "prog": AST, ...} | {"kind": "text", "text": str}"""
    if item["kind"] == "text":
        return item["text"]
    if "vdeep" in item:  # a very deep program is carried as its description (decomp._vdeep_program)
        return render.render(decomp._vdeep_program(item["vdeep"])).text
    return render.render(item["prog"]).text


class _NullStats:
    def count(self, *a):
        pass

    excluded_known = 0


def input_ssb(item):
    """item: {"kind": "ssb", "case": gen_ssb/decomp case} -> ssb case or None"""
    c, _ = decomp.materialise(item["case"], _NullStats())
    return c


def ws_base(item) -> str:
    import hashlib

    h = hashlib.sha1(json.dumps(item["case"], sort_keys=True, default=str).encode()).hexdigest()[:16]
    return f"{WS_ROOT}/{h}"


def open_ws(item):
    from vf import gen_macro

    return gen_macro.Workspace(item["case"], lambda p: render.render(p), base=ws_base(item))


def ws_compile(item, which, compiler=None, ws=None, budget=True) -> dict:
    """which: "main" or the index of an imported file that is compiled as if it were the top-level file"""
    from vf import spec_tables as T
    from explorerscript.ssb_converting.ssb_compiler import ExplorerScriptSsbCompiler

    if ws is None:
        ws = open_ws(item)
    import os

    if which == "main":
        path, text = ws.main_path, ws.texts[item["case"]["main_path"]]
    else:
        fd = item["case"]["files"][which % len(item["case"]["files"])]
        path, text = os.path.join(ws.base, fd["path"]), ws.texts[fd["path"]]
    c = compiler or ExplorerScriptSsbCompiler(T.PERF_VAR, ws.lookup_paths)
    try:
        if budget:
            with StepBudget(BUDGET):
                c.compile(text, path)
        else:
            c.compile(text, path)
    except BudgetExceeded:
        return {"raised": "BUDGET"}
    except Exception as e:  # noqa
        return describe_exc(e)
    return {
        "ops": json.loads(json.dumps(canon.canon_ops(c.routine_ops), default=str)),
        "offsets": [[op.offset for op in r] for r in c.routine_ops],
        "table": json.loads(json.dumps(model.real_routine_table(c.routine_infos, c.named_coroutines), default=str)),
        "source_map": c.source_map.serialize(),
    }


def reference(item) -> dict:
    """All results for one input, each computed on freshly built objects."""
    if item["kind"] == "ws":
        n = len(item["case"]["files"])
        return {"main": ws_compile(item, "main"), "libs": [ws_compile(item, i) for i in range(n)]}
    if item["kind"] in ("program", "text"):
        return {"compile": compile_result(input_text(item))}
    c = input_ssb(item)
    if c is None:
        return {"skip": True}
    ssbs = ssbs_result(gen_ssb.build(c))
    out = {"decompile": decompile_result(gen_ssb.build(c)), "ssbs": ssbs,
           "canon": json.loads(json.dumps(canon.canon_ops(gen_ssb.build(c)[1]), default=str))}
    if "text" in ssbs:
        out["ssbs_compile"] = ssbs_compile_result(ssbs["text"])
    return out


def ssbs_compile_result(text: str, compiler=None) -> dict:
    from vf.cut import compile_ssbs

    try:
        if compiler is not None:
            compiler.compile(text)
            c = compiler
        else:
            c = compile_ssbs(text)
    except Exception as e:  # noqa
        return describe_exc(e)
    return {
        "ops": json.loads(json.dumps(canon.canon_ops(c.routine_ops), default=str)),
        "table": json.loads(json.dumps(model.real_routine_table(c.routine_infos, c.named_coroutines), default=str)),
        "source_map": c.source_map.serialize(),
    }


def compile_result_nobudget(text: str) -> dict:
    try:
        c = compile_text(text)
    except Exception as e:  # noqa
        return describe_exc(e)
    return {
        "ops": json.loads(json.dumps(canon.canon_ops(c.routine_ops), default=str)),
        "offsets": [[op.offset for op in r] for r in c.routine_ops],
        "table": json.loads(json.dumps(model.real_routine_table(c.routine_infos, c.named_coroutines), default=str)),
        "source_map": c.source_map.serialize(),
    }


def decompile_result_nobudget(built) -> dict:
    from vf.cut import decompile

    infos, rops, coros = built
    try:
        text, sm = decompile(infos, rops, coros)
    except Exception as e:  # noqa
        return describe_exc(e)
    return {"text": text, "source_map": sm.serialize()}


def compile_result_nobudget_file(text: str, path: str) -> dict:
    try:
        c = compile_text(text, path)
    except Exception as e:  # noqa
        return describe_exc(e)
    return {
        "ops": json.loads(json.dumps(canon.canon_ops(c.routine_ops), default=str)),
        "offsets": [[op.offset for op in r] for r in c.routine_ops],
        "table": json.loads(json.dumps(model.real_routine_table(c.routine_infos, c.named_coroutines), default=str)),
        "source_map": c.source_map.serialize(),
    }
