import os, sys; sys.path.insert(0, os.path.dirname(os.path.dirname(os.path.abspath(__file__)))); sys.path.insert(0, "/repo")
import json, copy
from hypothesis import given, settings, strategies as st, HealthCheck, seed
from vf import gen_prog, render, parse, model

def norm(p):
    p = copy.deepcopy(p)
    for r in p["routines"]:
        if r["kind"] == "coro": r["id"] = -1
    def fixv(v):
        if isinstance(v, dict):
            if v.get("t") == "dec": v["v"] = model.norm_decimal_text(v["v"])
            for x in v.values(): fixv(x)
        elif isinstance(v, list):
            for x in v: fixv(x)
    fixv(p)
    return p

n = [0]
@seed(int(sys.argv[1]) if len(sys.argv) > 1 else 1)
@settings(max_examples=int(sys.argv[2]) if len(sys.argv) > 2 else 500, database=None, deadline=None, suppress_health_check=list(HealthCheck))
@given(gen_prog.programs(), st.lists(st.integers(0, 1000), max_size=40), st.one_of(st.none(), st.lists(st.integers(0, 1000), min_size=1, max_size=40)))
def t(prog, tape, ltape):
    n[0] += 1
    r = render.render(prog, render.Tape(tape), render.Tape(ltape) if ltape else None)
    back = parse.strip_parse_only_keys(parse.parse_program(r.text))
    a, b = norm(prog), norm(back)
    if a != b:
        print(r.text)
        print(json.dumps(a)[:3000]); print(json.dumps(b)[:3000])
        assert False
    # marks point at tokens
    lines = r.text.split("\n")
    for tok in r.toks:
        first = tok.s.split("\n")[0]
        assert lines[tok.line][tok.col:tok.col+len(first)] == first, (tok.s, tok.line, tok.col)
t()
print("ok", n[0])
