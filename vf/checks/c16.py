"""C16 - layout, comments and alternative spellings do not change the compiled ops (DESIGN.md 4, C16)."""
from __future__ import annotations

from hypothesis import strategies as st

from vf import canon, gen_macro, gen_prog, render
from vf.core import Failure, call_guard
from vf.cut import compile_text

ID = "C16"
LEVEL = "exploration"
RULE = (
    "a gen_prog program (with or without macros) is rendered twice from the same token sequence with two independent "
    "draws of: separators at every token boundary (blanks, tabs, newlines, line/block comments, line joining), @ vs "
    "paragraph sign in label definitions, for_actor(X) / for actor X / for actor (X) / for_actor X, trailing commas, "
    "integer base and digit case, redundant leading zeros of decimals, quote style and single- vs multi-line string "
    "spelling. Oracle: identical ops (opcode, parameter values, relative jump structure), routine tables and "
    "position-mark values. Non-trivial = the two renderings differ in >= 3 of the listed dimensions; distinct by hash "
    "of (AST, tapes)."
)
ASSUMPTIONS = [
    "separators are inserted only between tokens; comments never start with '?:' ; block comments contain no '*/'",
    "trailing zeros of decimals are significant and are never changed",
    "the generated ANTLR lexer/parser files are the grammar (no ANTLR tool offline)",
]
CASES = {"quick": 4800, "thorough": 100000}

_tape = st.lists(st.integers(0, 10000), min_size=1, max_size=60)


def strategy(tier):
    prog = st.one_of(gen_prog.programs(max_stmts=30), gen_macro.macro_programs(single_file=True, max_stmts=30))
    return st.fixed_dictionaries({"prog": prog, "t1": _tape, "t2": _tape, "l1": st.one_of(st.none(), _tape), "l2": _tape})


def evaluate(case, stt):
    fails = []
    prog = case["prog"]
    r1 = render.render(prog, render.Tape(case["t1"]), render.Tape(case["l1"]) if case["l1"] else None)
    r2 = render.render(prog, render.Tape(case["t2"]), render.Tape(case["l2"]), cr=True)
    dims = (r1.dims ^ r2.dims) | ({"layout"} if r1.text != r2.text else set())
    # dimensions in which the two texts really differ
    for d in sorted(r1.dims | r2.dims):
        stt.count("dim:" + d)
    c1, e1 = call_guard(lambda: compile_text(r1.text))
    c2, e2 = call_guard(lambda: compile_text(r2.text))
    if (e1 is None) != (e2 is None):
        ok_text, bad_text, err = (r1.text, r2.text, e2) if e1 is None else (r2.text, r1.text, e1)
        fails.append(Failure("one_rejected:" + err[0], f"one spelling compiles, the other raises {err[1]}\n--- accepted:\n{ok_text}\n--- rejected:\n{bad_text}"))
        return fails
    if e1 is not None:
        stt.count("both_rejected")
        if e1[0] != e2[0]:
            stt.count("both_rejected_differently")
        return fails
    a, b = canon.canon_compile_result(c1), canon.canon_compile_result(c2)
    if len(r1.dims | r2.dims) >= 3 and r1.text != r2.text:
        stt.mark_nontrivial(case)
    for key in ("ops", "table", "marks"):
        d = canon.first_diff(a[key], b[key], key)
        if d:
            fails.append(Failure(f"differs:{key}", f"{d}\n--- A:\n{r1.text}\n--- B:\n{r2.text}"))
            break
    if len(stt.samples) < 2 and len(r1.dims | r2.dims) >= 4:
        stt.sample({"A": r1.text[:1200], "B": r2.text[:1200], "dims": sorted(r1.dims | r2.dims)})
    return fails


def shrink_candidates(case):
    for p in gen_prog.shrink_candidates(case["prog"]):
        yield dict(case, prog=p)
