import sys, time, signal, json, faulthandler; faulthandler.dump_traceback_later(25, exit=True)
sys.path.insert(0,'/verif'); sys.path.insert(0,'/repo')
from hypothesis import given, settings, seed, HealthCheck, Phase
from vf import gen_macro, render
from vf.cut import compile_text
def h(*a): raise TimeoutError()
signal.signal(signal.SIGALRM, h)
@seed(3)
@settings(max_examples=300, database=None, deadline=None, suppress_health_check=list(HealthCheck), phases=[Phase.generate])
@given(gen_macro.macro_programs(single_file=True))
def t(prog):
    text = render.render(prog).text
    t0=time.time()
    signal.alarm(5)
    try:
        compile_text(text)
    except TimeoutError:
        print("TIMEOUT\n", text); raise SystemExit
    except Exception as e:
        pass
    finally:
        signal.alarm(0)
    if time.time()-t0>1: print("slow", time.time()-t0)
t()
print("done")
