"""Deterministic cooperative thread scheduler (DESIGN.md 3.6).

Worker threads run the code under test under a sys.settrace hook that turns every *line* event (optionally every
*opcode* event) inside the traced files into a yield point.  Exactly one worker runs at a time; a drawn list of
(thread choice, run length) pairs decides who runs next and for how many yield points.  The schedule is data: it
shrinks and replays exactly.
"""
from __future__ import annotations

import sys
import threading

TRACED_SUFFIXES = (
    "explorerscript/ssb_converting/decompiler/graph_building/graph_utils.py",
    "explorerscript/ssb_converting/decompiler/graph_building/graph_minimizer.py",
    "explorerscript/ssb_converting/ssb_decompiler.py",
    "explorerscript/ssb_converting/ssb_compiler.py",
    "explorerscript/ssb_converting/decompiler/label_jump_to_resolver.py",
    "explorerscript/ssb_converting/ssb_special_ops.py",
    "explorerscript/explorerscript_reader.py",
    "explorerscript/macro.py",
    "explorerscript/ssb_converting/compiler/utils.py",
    "antlr4/atn/ParserATNSimulator.py",
    "antlr4/atn/LexerATNSimulator.py",
    "antlr4/dfa/DFA.py",
    "antlr4/PredictionContext.py",
    "antlr4/atn/ATNConfigSet.py",
)
OPCODE_SUFFIXES = ("explorerscript/ssb_converting/decompiler/graph_building/graph_utils.py",)
# code that reads / writes state shared between calls: the decompiler's memo table, ANTLR's DFA / context caches
SHARED_SUFFIXES = (
    "explorerscript/ssb_converting/decompiler/graph_building/graph_utils.py",
    "antlr4/dfa/DFA.py",
    "antlr4/PredictionContext.py",
    "antlr4/atn/ATNConfigSet.py",
)


class Scheduler:
    def __init__(self, jobs, schedule, max_switches=4000):
        """jobs: list of callables; schedule: list of [thread choice, run length] or [thread choice, run length, mode]:
        mode 0 counts every yield point; mode 1 counts only yield points inside shared-state code (the thread is parked
        right there); mode 2 = mode 1, and the thread then stays parked until another thread has finished its job (a long
        preemption in the middle of an access to shared state)"""
        self.jobs = jobs
        self.n = len(jobs)
        self.schedule = list(schedule)
        self.pos = 0
        self.sems = [threading.Semaphore(0) for _ in jobs]
        self.done = [False] * self.n
        self.results = [None] * self.n
        self.errors = [None] * self.n
        self.current = None
        self.budget = 0
        self.mode = 0
        self.frozen: set[int] = set()
        self.switches = 0
        self.yield_points = 0
        self.in_traced = [0] * self.n  # yield points seen per thread
        self.switches_while_two_inside = 0
        self.max_switches = max_switches
        self.finished_evt = threading.Event()
        self._lock_probe = None
        try:
            from explorerscript.ssb_converting.decompiler.graph_building import graph_utils

            self._lock_probe = graph_utils.cache_lock
        except Exception:  # noqa
            pass

    # -- choosing who runs
    def _next_choice(self):
        runnable = [i for i in range(self.n) if not self.done[i] and i not in self.frozen]
        if not runnable:
            self.frozen.clear()
            runnable = [i for i in range(self.n) if not self.done[i]]
        if not runnable:
            return None, 0
        if self.schedule and self.switches < self.max_switches:
            # the schedule is reused cyclically until the switch cap is reached
            entry = self.schedule[self.pos % len(self.schedule)]
            self.pos += 1
            self.mode = entry[2] if len(entry) > 2 else 0
            return runnable[entry[0] % len(runnable)], max(1, entry[1])
        # cap reached: finish the remaining threads one after the other
        self.mode = 0
        return runnable[0], 10**9

    def _switch_from(self, tid, finished=False):
        nxt, length = self._next_choice()
        if nxt is None:
            self.finished_evt.set()
            return
        self.budget = length
        if nxt == tid and not finished:
            return
        self.switches += 1
        started = sum(1 for i in range(self.n) if self.in_traced[i] > 0 and not self.done[i])
        if started >= 2:
            self.switches_while_two_inside += 1
        self.current = nxt
        self.sems[nxt].release()
        if not finished:
            self.sems[tid].acquire()

    def _yield_point(self, tid, shared=False):
        self.yield_points += 1
        self.in_traced[tid] += 1
        if self._lock_probe is not None and self._lock_probe.locked():
            return  # never park a thread that holds the module's lock
        if self.mode and not shared:
            return
        self.budget -= 1
        if self.budget <= 0 and self.switches < self.max_switches:
            if self.mode == 2:
                self.frozen.add(tid)
            self._switch_from(tid)

    # -- tracing
    def _make_tracer(self, tid):
        sched = self

        def local(frame, event, arg):
            if event == "line" or event == "opcode":
                sched._yield_point(tid)
            return local

        def local_shared(frame, event, arg):
            if event == "line" or event == "opcode":
                sched._yield_point(tid, True)
            return local_shared

        def glob(frame, event, arg):
            if event != "call":
                return None
            fn = frame.f_code.co_filename
            # the whole package (write handlers, compile handlers, data types ... - class-level tables and memos live
            # anywhere) except the generated parser; of the ANTLR runtime only the cache-bearing modules
            if ("/explorerscript/" in fn and "/explorerscript/antlr/" not in fn) or fn.endswith(TRACED_SUFFIXES):
                if fn.endswith(OPCODE_SUFFIXES):
                    frame.f_trace_opcodes = True
                return local_shared if fn.endswith(SHARED_SUFFIXES) else local
            return None

        return glob

    def _worker(self, tid):
        self.sems[tid].acquire()
        sys.settrace(self._make_tracer(tid))
        try:
            self.results[tid] = self.jobs[tid]()
        except BaseException as e:  # noqa
            self.errors[tid] = e
        finally:
            sys.settrace(None)
            self.done[tid] = True
            self.frozen.clear()  # a job has finished: long preemptions end
            self._switch_from(tid, finished=True)

    def run(self, timeout=600):
        threads = [threading.Thread(target=self._worker, args=(i,), daemon=True) for i in range(self.n)]
        for t in threads:
            t.start()
        first, length = self._next_choice()
        self.budget = length
        self.current = first
        self.sems[first].release()
        ok = self.finished_evt.wait(timeout)
        for t in threads:
            t.join(5)
        if not ok:
            raise TimeoutError("scheduler did not finish (deadlock in the harness or the code under test)")
        return self.results, self.errors
