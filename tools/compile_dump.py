import os, sys; sys.path.insert(0, os.path.dirname(os.path.dirname(os.path.abspath(__file__))))
import sys
from vf.cut import compile_text
src = sys.stdin.read()
c = compile_text(src)
for i, r in enumerate(c.routine_ops):
    print("routine", i, c.routine_infos[i])
    for op in r:
        print("  ", op.offset, op.op_code.name, op.params)
