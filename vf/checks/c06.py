"""C06 - the decompiler always answers; its SsbScript fallback is marked and exact (DESIGN.md 4, C06)."""
from __future__ import annotations

from hypothesis import strategies as st

from vf import canon, decomp, gen_prog, gen_ssb, model, parse
from vf.core import Failure, call_guard
from vf.cut import compile_text

ID = "C06"
LEVEL = "exploration"
RULE = (
    "well-formed routine sets from gen_ssb strata 1 (compiled generated programs, renumbered with gaps), 2 (the same "
    "with behaviour-preserving layout changes: unreachable ops, leading Jump, threaded Jump, moved block, split tail) "
    "and 3 (free flow graphs over all opcode families with special syntax, targets anywhere incl. other routines); "
    "weight shifted to stratum 3. Oracle: convert() returns (str, SourceMap) within the deterministic step budget and "
    "raises nothing; if the text does not parse as ExplorerScript it must start with the marker line; whenever the "
    "marker is present, ExplorerScriptSsbCompiler.compile(text) must reproduce the input op for op (routines, opcodes, "
    "parameters, jump targets by index). Non-trivial = the fallback was taken or the input has a cross-routine jump / "
    "backward jump / call; distinct by content hash."
)
ASSUMPTIONS = [
    "well-formedness as in DESIGN.md Appendix B (documented arity, case ops after a switch header, context op followed by a plain op, routines end in a flow-ending op or Jump, no Jump-only cycle)",
    "exceeding 5e6 function entries inside explorerscript counts as 'does not answer' (finite observation, not a termination proof)",
]
CASES = {"quick": 6400, "thorough": 80000}


def strategy(tier):
    from vf.core import weighted

    # a context op in front of ANY op (another context op, a branch, a switch header, a case, a flow-ending op): outside
    # the domain of the behavioural checks, inside C06's (totality, marker, exact fallback)
    ctx_any = st.tuples(gen_ssb.free_graphs(), st.lists(st.tuples(st.integers(0, 9), st.integers(0, 40), st.sampled_from(["lives", "object", "performer"]), st.integers(0, 300)), min_size=1, max_size=2)).map(
        lambda t: dict(t[0], insert_ctx=[list(x) for x in t[1]]))
    # sizes: a straight run of thousands of ops inside a switch case that falls into the next case's block (the
    # structuring helpers recurse once per op walked; beyond the interpreter's recursion limit they must still end in the
    # fallback, not in an exception)
    long_run = st.tuples(st.sampled_from([3000, 9000, 10050, 10500, 12000]), st.integers(0, 2)).map(lambda t: _long_run_case(*t))
    return weighted((60, decomp.input_strategy(w1=1, w2=2, w3=4)), (10, ctx_any), (1, long_run))


def _long_run_case(n, tail):
    ops = [["Switch", [{"c": "$V_L"}], None], ["Case", [1], [0, 4]], ["Case", [2], [0, 4 + n]], ["Jump", [], [0, 4 + n + 2]]]
    ops += [[f"s_{i}", [], None] for i in range(n)]
    ops += [["bar", [], None], ["Jump", [], [0, 4 + n + 2]], [["Return", "End", "Hold"][tail], [], None]]
    return {"stratum": 3, "routines": [{"type": "GENERIC", "target": None, "target_name": None, "name": None, "ops": ops}], "gaps": [0], "first_offset": 0}


def evaluate(case, stt):
    fails = []
    c, prog = decomp.materialise(case, stt)
    if c is None:
        return fails
    stt.count(f"stratum:{c.get('stratum')}")
    ctx_any = bool(c.get("insert_ctx"))
    if ctx_any:
        c = gen_ssb.insert_ctx_ops(c, c["insert_ctx"])
        stt.count("context_op_in_front_of_any_op")
    ok, why = gen_ssb.well_formed(c, ctx_any=ctx_any)
    if not ok:
        stt.count("discard_not_well_formed")
        return fails
    try:
        infos, rops, coros = gen_ssb.build(c)
        model.equivalent(model.machine_graph(rops), model.machine_graph(rops))
    except model.OpFreeCycle:
        stt.count("discard_jump_only_cycle")
        return fails
    feats = decomp.features(c)
    for f_ in feats:
        stt.count(f_)
    status, a, b = decomp.run_decompiler(c)
    desc = gen_ssb.describe(c)
    if status == "budget":
        fails.append(Failure("no_answer:step_budget", f"convert() exceeded {decomp.STEP_BUDGET} steps\n{desc}"))
        return fails
    if status == "exc":
        fails.append(Failure(a, f"convert() raised {b}\n{desc}"))
        return fails
    text, sm = a, b
    from explorerscript.source_map import SourceMap

    if not isinstance(text, str) or not isinstance(sm, SourceMap):
        fails.append(Failure("bad_result_type", f"{type(text)} {type(sm)}"))
        return fails
    has_marker = text.startswith(decomp.MARKER + "\n") or text == decomp.MARKER
    if has_marker:
        stt.count("fallback")
        stt.mark_nontrivial(c)
        comp, exc = call_guard(lambda: compile_text(text))
        if exc is not None:
            fails.append(Failure("fallback_rejected:" + exc[0], f"{exc[1]}\n{desc}\n--- text:\n{text[-1500:]}"))
            return fails
        from vf.checks.c07 import expected_canon

        d = canon.first_diff(expected_canon(c), canon.canon_ops(comp.routine_ops), "ops")
        if d:
            fails.append(Failure("fallback_not_exact", f"{d}\n{desc}\n--- text:\n{text[-1500:]}"))
        tab = model.real_routine_table(comp.routine_infos, comp.named_coroutines)
        if tab != gen_ssb.routine_table(c):
            fails.append(Failure("fallback_routine_table", f"{tab} vs {gen_ssb.routine_table(c)}"))
        if len(stt.samples) < 2:
            stt.sample({"input": desc, "fallback_text_tail": text[-600:]})
    else:
        if feats & {"cross_routine_jump", "backward_jump", "call"}:
            stt.mark_nontrivial(c)
        _, exc = call_guard(lambda: parse.parse_program(text))
        if exc is not None:
            fails.append(Failure("unmarked_unparsable", f"text is neither ExplorerScript nor marked as SsbScript: {exc[1]}\n{desc}\n--- text:\n{text[:1500]}"))
        elif ctx_any:
            # for the inputs C02 does not look at: unmarked text must at least be ExplorerScript the compiler takes,
            # unless the input is one of C02's known findings (undefined labels ...)
            known = (gen_ssb.foreign_targets_not_locally_reachable(c) or gen_ssb.inexpressible_case_ops(c) or gen_ssb.case_jumps_backward_or_into_chain(c) or gen_ssb.case_op_is_jump_target(c)
                     or gen_ssb.degenerate_branch_in_loop(c) or gen_ssb.call_on_cycle(c) or gen_ssb.call_target_only_reachable_by_call(c))
            _, exc = call_guard(lambda: compile_text(text))
            if exc is not None and not known:
                fails.append(Failure("unmarked_not_explorerscript:" + exc[0], f"text carries no marker but the compiler rejects it: {exc[1]}\n{desc}\n--- text:\n{text[:1500]}"))
    return fails


def shrink_candidates(case):
    if "prog" in case:
        for p in gen_prog.shrink_candidates(case["prog"]):
            yield dict(case, prog=p)
    else:
        for c in gen_ssb.shrink_candidates(case):
            if gen_ssb.well_formed(c)[0]:
                yield c
