"""Fresh-interpreter worker: reads a JSON list of inputs on stdin, prints the list of reference results.
Each input is processed in the order given but the process is new, so nothing was compiled or decompiled before
the first one; with --isolate every input gets its own process (used for the model of C11)."""
from __future__ import annotations

import json
import os
import sys


def main():
    sys.path.insert(0, os.environ.get("VERIF_REPO", "/repo"))
    import logging

    logging.disable(logging.CRITICAL)
    import warnings

    warnings.simplefilter("ignore")
    os.dup2(os.open(os.devnull, os.O_WRONLY), 2)
    from vf import results

    data = json.load(sys.stdin)
    if isinstance(data, dict) and data.get("concurrent"):
        # C12 cold mode: run the jobs concurrently FIRST (nothing was parsed or decompiled in this process yet, so
        # the shared ANTLR DFA caches are built under thread switches), compute the sequential results afterwards
        from vf.checks import c12

        json.dump(c12.run_case_here(data["case"], reference_first=False), sys.stdout)
        return
    out = [results.reference(it) for it in data]
    json.dump(out, sys.stdout)


if __name__ == "__main__":
    main()
