#!/usr/bin/env python3
"""Regenerates MANIFEST.json from the table below (keeps it schema-valid by construction)."""
import json
import os
import sys

HERE = os.path.dirname(os.path.dirname(os.path.abspath(__file__)))

# id -> (category, technique, text, note, design_ref)
CHECKS = {
    "C14": (
        "exploration",
        "Hypothesis generated source maps + offset mappings; round-trip oracle and reference rewriter",
        "Thousands of generated well-typed source maps and injective (dropping, non-monotone) offset mappings per run; "
        "storage round trip compared field by field through the public accessors, rewrite_offsets compared with an "
        "independent 15-line reference rewriter written from the property statement. Sampling, not proof.",
        "Trusts json, the generator's well-typedness assumptions (return address >= 1, direct/macro offsets disjoint).",
        "DESIGN.md 4 C14",
    ),
    "C01": (
        "translation_validation",
        "Hypothesis program generator + reference semantics; exact all-paths equivalence of flow graphs",
        "Every generated program is validated over all paths: the machine model of the compiled ops must be trace-tree "
        "equal (bisimilar) to the reference semantics of the source written from docs/language_spec.rst, incl. opcode "
        "choice, parameter order and routine tables. The program space is sampled (thousands per run, anchor shapes "
        "weighted), each sample decided exactly.",
        "Trusts the reference semantics S / Appendix A table (vf/model.py, vf/spec_tables.py), the renderer (self-tested "
        "render->parse identity) and the generated ANTLR parser. Depth <= 4, control statements inside with-blocks and "
        "op-free cycles are outside the domain.",
        "DESIGN.md 4 C01",
    ),
    "C03": (
        "exploration",
        "Hypothesis program generator (with macros) + structural invariant over compile() results",
        "Invariant (unique offsets, closed jump targets as last int parameter, no pseudo ops, equal table lengths) checked "
        "on thousands of generated compilation results per run, for the ExplorerScript compiler and for the SsbScript "
        "compiler on the printed form of the same op lists.",
        "Jump-carrying kinds as in DESIGN.md Appendix A; rejected programs are outside the quantifier.",
        "DESIGN.md 4 C03",
    ),
    "C10": (
        "exploration",
        "Hypothesis: valid programs, token-level corruptions, injected static errors, degenerate files, arbitrary text; exception-type oracle",
        "Generated inputs of six classes (incl. SsbScript sources behind the marker line and macro call cycles across files); the call must return or raise one of the three documented exception types, and "
        "every program with one injected static error from the property's list must be rejected. A CLI stage checks exit "
        "status / stderr of python -m explorerscript.cli.compile on a sample.",
        "Each injected error is statically meaningless by construction (snippets in vf/checks/c10.py); ids > 60 not generated.",
        "DESIGN.md 4 C10",
    ),
    "C16": (
        "exploration",
        "Hypothesis metamorphic testing: two independent re-spellings of one token sequence must compile identically",
        "Each generated program is rendered twice with independent draws of layout, comments, label sigil, routine header "
        "form, trailing commas, integer base, decimal leading zeros and quote style; ops, jump structure, routine tables "
        "and position-mark values must be identical.",
        "Renderer inserts separators only between tokens; trailing zeros of decimals are significant; committed generated parser = grammar.",
        "DESIGN.md 4 C16",
    ),
    "C02": (
        "translation_validation",
        "Hypothesis SSB routine-set generator (compiled programs, re-layouts, free flow graphs); decompiled text read by the reference semantics; exact all-paths equivalence with the machine model of the input",
        "For each generated well-formed routine set the decompiled text must compile, and - read by the reference "
        "semantics S through an independent parser front end, not by the compiler - denote exactly the input's flow graph "
        "(all paths, parameters, routine tables); compile(decompile(x)) is compared with x as the derived claim. The input "
        "space is sampled; every sample is decided exactly.",
        "Trusts S / M (vf/model.py), the generated ANTLR parser and the reference literal reader; inputs that raise, take "
        "the fallback or exceed the step budget are C06's; six known findings (known_findings.json) are excluded by narrow predicates.",
        "DESIGN.md 4 C02",
    ),
    "C04": (
        "exploration",
        "Hypothesis value / literal generators; print->parse round trip through the real decompilers and compilers; reference literal reader as oracle for spellings",
        "Tens of thousands of generated parameter values per run printed in every context (op argument, menu case header, "
        "message-switch text, flag assignment; ExplorerScript and SsbScript decompilers; indentation 0-4) and compiled "
        "back, compared by value; and generated literal spellings compared with a reference reader written from the "
        "specification's Data Types section.",
        "Control characters / tabs-as-indentation are not generated; one known finding (strings without an exact literal) excluded by the predicate vf.checks.c04.unspellable.",
        "DESIGN.md 4 C04",
    ),
    "C06": (
        "exploration",
        "Hypothesis SSB routine-set generator weighted to free flow graphs; totality under a deterministic step budget + exact fallback round trip",
        "convert() must return (str, SourceMap) for every generated well-formed routine set without raising and within a "
        "deterministic budget of 5e6 function entries; unparsable output must carry the marker line; marked output must "
        "compile back to the input op for op.",
        "Termination is observed up to the step budget only; well-formedness as in DESIGN.md Appendix B.",
        "DESIGN.md 4 C06",
    ),
    "C07": (
        "exploration",
        "Hypothesis SSB routine-set generator (arbitrary opcode names, all parameter kinds, empty routines, cross-routine jumps); SsbScript decompile->compile round trip",
        "SsbScriptSsbCompiler(SsbScriptSsbDecompiler(x)) must equal x up to renumbering for thousands of generated routine sets per run.",
        "Strings stay within what has an exact literal (C04's known finding); identifiers are never reserved words.",
        "DESIGN.md 4 C07",
    ),
    "C13": (
        "exploration",
        "Hypothesis generator of exactly the flat structured program class; decompile(compile(P)) inspected through the parser for jump statements, fallback and operation counts",
        "Generated flat programs are compiled, renumbered and decompiled; the text must be unmarked ExplorerScript, contain "
        "no jump statement and print every operation exactly once. On the current tree the jump-freedom half fails for every "
        "program with an if or switch (known finding F-C13-1, not safely repairable); the other halves and block-free programs are fully checked.",
        "Operation names unique by construction; menu case headers only under message_SwitchMenu-style headers.",
        "DESIGN.md 4 C13",
    ),
    "C05": (
        "translation_validation",
        "Hypothesis macro / import generator (call graphs, permutations, multi-file scratch layouts); reference inliner + reference semantics; exact all-paths equivalence; differential against the canonical order",
        "Every generated acyclic macro program must compile in the drawn definition order and file distribution, behave "
        "(all paths, via the machine model) like the program with every call inlined by an independent reference inliner, "
        "and compile op-for-op like the same macros in one file; decoy files in later lookup paths must never be used. "
        "Compilation runs under a deterministic step budget (a former defect made it never return).",
        "Trusts the reference inliner (vf/gen_macro.py) and S/M; parameters never carry the performance-progress constant; macro bodies are self-contained.",
        "DESIGN.md 4 C05",
    ),
    "C08": (
        "exploration",
        "Hypothesis program generator with unique op names / header variables, macros over several files, drawn layout; source-map entries compared with the positions recorded by the token-level renderer and with the reference expansion structure",
        "compile().source_map is checked entry by entry: existence for every emitted op, exact positions for uniquely "
        "named ops (direct and macro), admissible header/statement starts for the rest, defining file / macro / call site "
        "for macro entries, return-address bounds derived from the reference inliner's expansion tree, named files vs "
        "IncludedUsageMap, recorded position marks vs emitted parameters.",
        "Compiler-inserted ops only need to map to some statement/header start; one stored call site per op (outer or nested call accepted).",
        "DESIGN.md 4 C08",
    ),
    "C09": (
        "exploration",
        "Hypothesis SSB routine-set generator with unique op names and multi-line parameters; the decompile-time source map is checked against the emitted text by position and per-opcode-family patterns, and against the compile-time map of the same text",
        "For both decompilers every entry must be keyed by an input op offset and point at the start of the statement "
        "printed for that op; uniquely named printed operations must have an entry at exactly their position; recompiling "
        "the text must put them on the same line.",
        "An elided Jump may keep an entry at the statement printed in its place; ops grouped in one `if (a || b)` share the first op's entry.",
        "DESIGN.md 4 C09",
    ),
    "C11": (
        "exploration",
        "Hypothesis RuleBasedStateMachine over compile / decompile call histories with a fresh-interpreter reference model",
        "Histories of up to 25 (thorough: 50) calls over a drawn pool of programs, failing programs and routine sets, incl. "
        "one shared compiler instance, repeated convert() on one decompiler and reuse of the same op objects; after every "
        "step the result must equal, byte for byte in canonical JSON form, the result computed for that input alone in a "
        "fresh interpreter process, and the caller's op objects must still denote the same routine set.",
        "Canonical forms of vf/results.py; param.indent is not meaning.",
        "DESIGN.md 4 C11",
    ),
    "C12": (
        "exploration",
        "Hypothesis-drawn thread schedules executed by a deterministic cooperative scheduler (sys.settrace yield points at line / opcode granularity) plus free-running threads with a 1 microsecond switch interval; sequential results as oracle",
        "2-4 concurrent compile/decompile jobs per case; the schedule is data (replays and shrinks); every job must return "
        "exactly its sequential result and none may raise. Partial by nature: interleavings under the GIL at line/opcode "
        "granularity in the anchored modules, not C-level races and not other Python implementations.",
        "A thread is never parked while holding graph_utils.cache_lock; free-running failures are not replayable as schedules.",
        "DESIGN.md 4 C12",
    ),
    "C15": (
        "translation_validation",
        "Hypothesis program and JSON-document generators driving both CLI modules in-process (runpy) and as real subprocesses; structure check, jump-position check against the API result, behavioural comparison of the CLI round trip by the reference semantics",
        "Every generated program goes compile command -> JSON -> decompile command; the JSON must have the documented "
        "structure with jump parameters equal to 1-based op positions, and the decompiled text must behave like the source "
        "on all paths; documents built from docs/cli_api_usage.rst must be accepted; invalid inputs must give a non-zero status.",
        "Round-trip behaviour is not compared when the decompile command prints the fallback or the input is hit by a C02 known finding.",
        "DESIGN.md 4 C15",
    ),
    "C17": (
        "exploration",
        "Hypothesis text generators (arbitrary Unicode, quote/comment-heavy alphabet, rendered and truncated programs); totality bound and text-preservation oracle on the Pygments lexer",
        "get_tokens_unprocessed must yield contiguous tokens that concatenate to the input within len(text)+1 tokens; "
        "get_tokens must reproduce the normalised input; no Error token for compiler-accepted sources.",
        "Pygments' preprocessing is trusted; termination is observed through the token-count bound.",
        "DESIGN.md 4 C17",
    ),
    "C18": (
        "exploration",
        "Hypothesis program generator rich in Position literals with drawn layout; listing compared with the token-level renderer's record; metamorphic single-span edit",
        "PositionMarkVisitor's result must equal the renderer's record (count, order, start, end, values) for literals in "
        "routines, macro bodies, call arguments and operation headers, also when a literal spans lines; replacing exactly "
        "one reported span by the printed form of an edited mark must change only parameters of that mark.",
        "Mark names are unique per program.",
        "DESIGN.md 4 C18",
    ),
}

NOT_YET = {}

ALL = [f"C{i:02d}" for i in range(1, 19)]


def main():
    checks = []
    for cid in ALL:
        if cid not in CHECKS:
            continue
        cat, tech, text, note, ref = CHECKS[cid]
        checks.append(
            {
                "property_id": cid,
                "quick_cmd": f"/venv/bin/python -m vf.run {cid} --tier quick",
                "thorough_cmd": f"/venv/bin/python -m vf.run {cid} --tier thorough",
                "evidence_file": f"evidence/{cid}.json",
                "replay_cmd_template": f"/venv/bin/python -m vf.run {cid} --replay {{path}}",
                "engine": "vf",
                "level_claimed": {"category": cat, "text": text, "design_ref": ref},
                "level_note": note,
                "technique": tech,
            }
        )
    na = [
        {"property_id": cid, "reason": NOT_YET.get(cid, "check not built yet in this round (planned in DESIGN.md section 4); not claimed until it runs")}
        for cid in ALL
        if cid not in CHECKS
    ]
    man = {
        "version": 1,
        "setup_cmd": "sh ./setup.sh",
        "hooks": {
            "guard": "EXPLORERSCRIPT_VERIF",
            "enable": "no hooks are needed: all properties are observed through public API results, exceptions, CLI output or sys.monitoring/sys.settrace from outside; checks import explorerscript from /repo's working tree",
            "baseline_off_cmd": "cd /repo && /venv/bin/python -m pytest -ra -q -p no:cacheprovider --timeout=900 --continue-on-collection-errors",
            "source_commits": [],
            "add_only": True,
        },
        "engines": [
            {
                "name": "vf",
                "path": "vf/",
                "serves_properties": [c["property_id"] for c in checks],
                "kind_free_text": "Hypothesis generators + reference models/round-trip/metamorphic oracles, sharded over 16 processes, collect-then-shrink, deterministic per VERIF_SEED",
            }
        ],
        "checks": checks,
        "not_applicable": na,
        "notes": "All checks: python -m vf.run <ID> --tier quick|thorough [--replay file]; exit 0 held / 1 VIOLATION / 2 harness error or inconclusive. Known findings: known_findings.json. Seeded breaking changes: seeded/.",
    }
    with open(os.path.join(HERE, "MANIFEST.json"), "w") as fh:
        json.dump(man, fh, indent=1)
        fh.write("\n")


if __name__ == "__main__":
    sys.exit(main())
