#!/venv/bin/python
"""Coverage-guided campaign for C10 (atheris / libFuzzer): bytes -> ExplorerScript-ish text -> compile().

Oracle (inside the target): the call returns, or raises ParseError / SsbCompilerError / ValueError; anything else
is a finding. The bytes are decoded through a token table (one byte = one token of the language, so the fuzzer mutates
token sequences, not characters) unless the first byte is odd, in which case the rest is taken as UTF-8 text.

Not run by the quick tier. `python -m vf.run C10 --tier thorough` runs it as an extra stage for a fixed number of
executions (VERIF_FUZZ_RUNS, default 60000 per worker) with -seed derived from VERIF_SEED; a crash input is written to
evidence/replay/ as a C10 "text" case (replayable without atheris).

usage: PYTHONPATH=/verif/.deps:/repo:/verif /venv/bin/python -m vf.fuzz_c10 <corpus dir> -runs=N -seed=S [-artifact_prefix=DIR/]
"""
from __future__ import annotations

import os
import sys

TOKENS = [
    "def", "coro", "macro", "for", "actor", "object", "performer", "alias", "previous", "import", "if", "elseif", "else", "not",
    "switch", "case", "default", "break", "continue", "break_loop", "forever", "while", "with", "jump", "call", "return", "end",
    "hold", "message_SwitchTalk", "message_SwitchMonologue", "menu", "menu2", "scn", "value", "random", "sector", "dungeon_mode",
    "debug", "edit", "variation", "clear", "init", "reset", "dungeon_result", "adventure_log", "TRUE", "FALSE", "Position",
    "{", "}", "(", ")", "[", "]", "<", ">", ";", ":", ",", "=", "==", "!=", "<=", ">=", "+=", "-=", "*=", "/=", "&", "^", "&<<", "||",
    "@", "§", "~", "$A", "$B", "$SCENARIO_MAIN", "$PERF_PROGRESS_VF", "$PERFORMANCE_PROGRESS_LIST", "x", "y", "lbl", "m", "n", "CONST", "0", "1", "2", "3", "-1", "0x10",
    "1.5", ".5", "-0.5", "'s'", '"t"', "'''\n a\n'''", "english", "{english='a'}", "BranchSum", "BranchExecuteSub", "ProcessSpecial",
    "message_SwitchMenu", "Destroy", "\n", " ", "//c\n", "/*c*/", "//?: is-ssb-script: true\n", "\"./lib.exps\"",
]


def decode(data: bytes) -> str:
    if not data:
        return ""
    if data[0] & 1:
        return data[1:].decode("utf-8", "ignore")
    out = []
    for b in data[1:]:
        out.append(TOKENS[b % len(TOKENS)])
    return " ".join(out)


def main():
    import atheris

    with atheris.instrument_imports(include=["explorerscript.ssb_converting", "explorerscript.ssb_script", "explorerscript.macro", "explorerscript.common_syntax", "explorerscript.source_map", "explorerscript.util"]):
        import explorerscript.ssb_converting.ssb_compiler  # noqa
        import explorerscript.ssb_script.ssb_converting.ssb_compiler  # noqa
    from vf.cut import StepBudget, BudgetExceeded, compile_text, documented_errors

    ok = documented_errors()

    def target(data: bytes):
        text = decode(data)
        try:
            with StepBudget(2_000_000):
                compile_text(text)
        except ok:
            pass
        except BudgetExceeded:
            pass  # inconclusive, not a finding of this stage

    atheris.Setup(sys.argv, target)
    atheris.Fuzz()


if __name__ == "__main__":
    devnull = os.open(os.devnull, os.O_WRONLY)
    main()
