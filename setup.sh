#!/bin/sh
# Offline setup: make sure hypothesis is importable in /venv (the repository is installed there, editable).
set -e
cd "$(dirname "$0")"
if ! /venv/bin/python -c "import hypothesis" 2>/dev/null; then
  PIP_NO_INDEX=1 /venv/bin/pip install --no-index --find-links /opt/veriftools/wheels hypothesis
fi
# optional: atheris for the coverage-guided stage of the thorough tier of C10 (skipped there if this fails)
if ! PYTHONPATH=.deps /venv/bin/python -c "import atheris" 2>/dev/null; then
  PIP_NO_INDEX=1 /venv/bin/pip install --no-index --find-links /opt/veriftools/wheels --target .deps atheris >/dev/null 2>&1 || true
fi
/venv/bin/python -c "import hypothesis, explorerscript, sys; print('setup ok', hypothesis.__version__, explorerscript.__file__)"
