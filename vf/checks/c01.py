"""C01 - compiled bytecode behaves exactly as the source program says (DESIGN.md 4, C01)."""
from __future__ import annotations

from vf import gen_prog, model, render
from vf.core import Failure, call_guard
from vf.cut import compile_text

ID = "C01"
LEVEL = "translation_validation"
RULE = (
    "gen_prog constructs valid macro-free programs (1-4 routines, all statement/header/assignment forms, labels with "
    "jump/call incl. cross-routine, loops, switches with fall-through/grouped cases/default anywhere, anchor shapes "
    "weighted). Each program is validated over ALL paths: M(compile(P)) must be trace-tree equal to the reference "
    "semantics S(P), and the routine tables must agree. Non-trivial = S(P) has >= 1 test node and >= 2 distinct "
    "complete paths; distinct by content hash of the AST."
)
ASSUMPTIONS = [
    "reference semantics S transcribed from docs/language_spec.rst; opcode/parameter table of DESIGN.md Appendix A",
    "control statements inside with-blocks and op-free cycles are outside the generated domain",
    "nesting depth <= 4, <= ~40 statements per program",
]
CASES = {"quick": 12800, "thorough": 240000}

SHAPES = ["neg_if_lone_jump", "case_only_break", "lone_jump_block", "default_first", "grouped_case", "fallthrough",
          "no_final_terminator", "loop_last", "label_last", "call", "for", "while", "forever", "switch", "if"]


def strategy(tier):
    return gen_prog.programs(max_stmts=40 if tier == "quick" else 60, may_be_rejected=True)


def shape_of(classes: set[str]) -> str:
    for s in SHAPES:
        if s in classes:
            return s
    return "other"


def check_program(prog, st, tag=""):
    """Shared by C01 and others: returns (failures, compiler or None, S graph or None)."""
    fails = []
    classes = gen_prog.classify(prog)
    for c in classes:
        st.count(c)
    try:
        gs, table_s = model.source_graph(prog)
        stats = gs.reachable_stats()  # full traversal: raises OpFreeCycle if the SOURCE has a reachable op-free cycle
        npaths = model.count_paths(gs, 50)
    except model.OpFreeCycle:
        st.count("discard_op_free_cycle")
        return fails, None, None
    except model.SemanticsError as e:
        # the specification gives this program no meaning (e.g. a switch that ends in an empty case): the compiler must
        # not turn it into bytecode
        comp, exc = call_guard(lambda: compile_text(render.render(prog).text))
        if exc is None:
            fails.append(Failure("accepted_meaningless_program", f"{e}: accepted and compiled to {sum(len(r) for r in comp.routine_ops)} ops\n{render.render(prog).text}"))
        else:
            st.count("meaningless_and_rejected")
        return fails, None, None
    # every other program is written with drawn spellings (integer bases, quote styles, the deprecated header forms ...):
    # the spelling tape is a function of the program, so no extra draws and the same shrinking
    import hashlib
    import json as _json

    h = hashlib.sha1(_json.dumps(prog, sort_keys=True, default=str).encode()).digest()
    if h[0] % 2:
        st.count("spelled_rendering")
        text = render.render(prog, render.Tape([b * 37 + i for i, b in enumerate(h)])).text
    else:
        text = render.render(prog).text
    comp, exc = call_guard(lambda: compile_text(text))
    if exc is not None:
        # C01 quantifies over programs the compiler ACCEPTS; a documented rejection is not a C01 matter
        # (undocumented exception types are C10's).  Counted so that a starving check is visible.
        st.count("rejected_by_compiler")
        st.add("rejected:" + exc[0])
        return fails, None, gs
    st.add("programs")
    try:
        gm = model.machine_graph(comp.routine_ops)
    except model.ModelError as e:
        fails.append(Failure("malformed_output", f"{e}\n{text}"))
        return fails, comp, gs
    try:
        ok, msg, pairs = model.equivalent(gs, gm)
    except model.OpFreeCycle:
        fails.append(Failure("output_op_free_cycle", f"compiled ops contain a Jump-only cycle\n{text}"))
        return fails, comp, gs
    st.add("paths_pairs", pairs)
    if stats["tests"] >= 1 and npaths >= 2:
        st.mark_nontrivial(prog)
        st.add("disagreements_checked", 0)
    if not ok:
        fails.append(Failure(f"behaviour:{shape_of(classes)}", f"{msg}\n{text}"))
    table_m = model.real_routine_table(comp.routine_infos, comp.named_coroutines)
    if table_m != table_s:
        fails.append(Failure("routine_table", f"expected {table_s} got {table_m}\n{text}"))
    if len(st.samples) < 2 and stats["tests"] >= 2:
        st.sample({"source": text, "S_nodes": stats["nodes"], "S_tests": stats["tests"], "pairs_compared": pairs})
    return fails, comp, gs


def case_program(case):
    """A case is either a generated AST or {"source": text} (hand-written replay)."""
    if "source" in case and "routines" not in case:
        from vf import parse

        return parse.strip_parse_only_keys(parse.parse_program(case["source"]))
    return case


def evaluate(case, st):
    fails, _, _ = check_program(case_program(case), st)
    return fails


def shrink_candidates(case):
    return gen_prog.shrink_candidates(case)
